package main

import (
	"encoding/json"
	"fmt"
	"sort"
	"strings"

	"github.com/enbility/spine-go/api"
	"github.com/enbility/spine-go/model"
)

// AbsDg is the abstract datagram of spec/SpineCore.tla (Dg) plus observation-only fields.
type AbsDg struct {
	K    string   `json:"k"`   // result | reply | notify | read | call | write
	Ok   bool     `json:"ok"`  // result: errorNumber = 0
	Ref  string   `json:"ref"` // req (references the injected datagram) | none | other
	Src  string   `json:"src"`
	Dst  string   `json:"dst"`
	Fn   string   `json:"fn"`
	Val  int      `json:"val"`
	Ents []AbsEnt `json:"ents"`
	Ids  []uint64 `json:"ids"`
	Ucs  []AbsUc  `json:"ucs"`
	Ctr  uint64   `json:"ctr"`
	Ack  bool     `json:"ack"`
	Flt  string   `json:"flt"` // filter shape
}

// AbsUc: one use case of the registry
type AbsUc struct {
	E     string `json:"e"`
	Actor string `json:"actor"`
	Name  string `json:"name"`
	Ver   string `json:"ver"`
	Av    bool   `json:"av"`
	Sc    string `json:"sc"`
}

// absUcs flattens use-case data into registry records; anything unexpected (foreign device address,
// missing fields) is made visible in the entity field
func absUcs(d *model.NodeManagementUseCaseDataType) []AbsUc {
	r := []AbsUc{}
	if d == nil {
		return r
	}
	for _, info := range d.UseCaseInformation {
		e := "?"
		if info.Address != nil {
			e = entStr(info.Address.Entity)
			if info.Address.Device == nil || string(*info.Address.Device) != localDevAddr {
				e += "@baddev"
			}
			if info.Address.Feature != nil {
				e += "@feature"
			}
		}
		actor := "?"
		if info.Actor != nil {
			actor = string(*info.Actor)
		}
		if len(info.UseCaseSupport) == 0 {
			r = append(r, AbsUc{E: e, Actor: actor, Name: "<empty record>"})
		}
		for _, u := range info.UseCaseSupport {
			x := AbsUc{E: e, Actor: actor, Name: "?", Ver: "?"}
			if u.UseCaseName != nil {
				x.Name = string(*u.UseCaseName)
			}
			if u.UseCaseVersion != nil {
				x.Ver = string(*u.UseCaseVersion)
			}
			x.Av = u.UseCaseAvailable != nil && *u.UseCaseAvailable
			var sc []string
			for _, s := range u.ScenarioSupport {
				sc = append(sc, fmt.Sprint(uint(s)))
			}
			x.Sc = strings.Join(sc, ",")
			r = append(r, x)
		}
	}
	sort.Slice(r, func(i, j int) bool { return fmt.Sprint(r[i]) < fmt.Sprint(r[j]) })
	return r
}

type AbsEnt struct {
	C string `json:"c"`
	S string `json:"s"`
}

type AbsEvent struct {
	T   string `json:"t"`
	Chg string `json:"chg"`
	P   string `json:"p"`
	E   string `json:"e"`
	C   string `json:"c"`
	S   string `json:"s"`
}

// value abstraction of the data cells the core configs use: a one-item list whose
// item 0 carries the integer v; 0 = no data; -2 = anything else
func dataVal(_ model.FunctionType, data any) int {
	switch d := data.(type) {
	case nil:
		return 0
	case *model.LoadControlLimitListDataType:
		if d == nil || len(d.LoadControlLimitData) == 0 {
			return 0
		}
		if len(d.LoadControlLimitData) != 1 {
			return -2
		}
		it := d.LoadControlLimitData[0]
		if it.LimitId == nil || *it.LimitId != 0 || it.Value == nil || it.Value.Number == nil {
			return -2
		}
		return int(it.Value.GetValue())
	case *model.DeviceConfigurationKeyValueListDataType:
		if d == nil || len(d.DeviceConfigurationKeyValueData) == 0 {
			return 0
		}
		if len(d.DeviceConfigurationKeyValueData) != 1 {
			return -2
		}
		it := d.DeviceConfigurationKeyValueData[0]
		if it.KeyId == nil || *it.KeyId != 0 || it.Value == nil || it.Value.Integer == nil {
			return -2
		}
		return int(*it.Value.Integer)
	case *model.MeasurementListDataType:
		if d == nil || len(d.MeasurementData) == 0 {
			return 0
		}
		if len(d.MeasurementData) != 1 {
			return -2
		}
		it := d.MeasurementData[0]
		if it.MeasurementId == nil || *it.MeasurementId != 0 || it.Value == nil || it.Value.Number == nil {
			return -2
		}
		return int(it.Value.GetValue())
	}
	b, _ := json.Marshal(data)
	if string(b) == "{}" || string(b) == "null" {
		return 0
	}
	return -2
}

func ptr[T any](v T) *T { return &v }

func mkData(fn string, v int) any {
	switch fn {
	case "limit":
		return &model.LoadControlLimitListDataType{LoadControlLimitData: []model.LoadControlLimitDataType{{
			LimitId: ptr(model.LoadControlLimitIdType(0)), IsLimitChangeable: ptr(true), IsLimitActive: ptr(true),
			Value: model.NewScaledNumberType(float64(v))}}}
	case "kv":
		return &model.DeviceConfigurationKeyValueListDataType{DeviceConfigurationKeyValueData: []model.DeviceConfigurationKeyValueDataType{{
			KeyId: ptr(model.DeviceConfigurationKeyIdType(0)), IsValueChangeable: ptr(true),
			Value: &model.DeviceConfigurationKeyValueValueType{Integer: ptr(int64(v))}}}}
	case "ldesc":
		return &model.LoadControlLimitDescriptionListDataType{LoadControlLimitDescriptionData: []model.LoadControlLimitDescriptionDataType{{
			LimitId: ptr(model.LoadControlLimitIdType(0)), Description: ptr(model.DescriptionType(fmt.Sprint(v)))}}}
	case "kvdesc":
		return &model.DeviceConfigurationKeyValueDescriptionListDataType{DeviceConfigurationKeyValueDescriptionData: []model.DeviceConfigurationKeyValueDescriptionDataType{{
			KeyId: ptr(model.DeviceConfigurationKeyIdType(0)), Description: ptr(model.DescriptionType(fmt.Sprint(v)))}}}
	case "mfr":
		return &model.DeviceClassificationManufacturerDataType{DeviceName: ptr(model.DeviceClassificationStringType(fmt.Sprint(v)))}
	case "meas":
		return &model.MeasurementListDataType{MeasurementData: []model.MeasurementDataType{{
			MeasurementId: ptr(model.MeasurementIdType(0)), Value: model.NewScaledNumberType(float64(v))}}}
	}
	panic("mkData: " + fn)
}

func filterShape(cmd model.CmdType) string {
	if len(cmd.Filter) == 0 {
		return ""
	}
	s := ""
	for _, f := range cmd.Filter {
		if f.CmdControl == nil {
			s += "?"
			continue
		}
		if f.CmdControl.Partial != nil {
			s += "P"
		}
		if f.CmdControl.Delete != nil {
			s += "D"
		}
		if fd, err := f.Data(); err == nil {
			if fd.Selector != nil {
				s += "s"
			}
			if fd.Elements != nil {
				s += "e"
			}
		}
	}
	return s
}

// abstractOut decodes one message written by the stack to peer p's connection
func (s *System) abstractOut(p *Peer, raw []byte, injected uint64) (AbsDg, *model.DatagramType) {
	var dg model.Datagram
	d := AbsDg{Val: -1, Ents: []AbsEnt{}, Ids: []uint64{}, Ucs: []AbsUc{}}
	if err := json.Unmarshal(raw, &dg); err != nil {
		d.K = "undecodable"
		return d, nil
	}
	h := dg.Datagram.Header
	if h.CmdClassifier != nil {
		d.K = string(*h.CmdClassifier)
	}
	if h.MsgCounter != nil {
		d.Ctr = uint64(*h.MsgCounter)
	}
	d.Ref = "none"
	if h.MsgCounterReference != nil {
		if uint64(*h.MsgCounterReference) == injected {
			d.Ref = "req"
		} else {
			d.Ref = "other"
		}
	}
	d.Ack = h.AckRequest != nil && *h.AckRequest
	d.Src = s.localName(h.AddressSource)
	d.Dst = s.remoteName(p, h.AddressDestination)
	d.Ok = true
	if len(dg.Datagram.Payload.Cmd) != 1 {
		d.Fn = fmt.Sprintf("cmds=%d", len(dg.Datagram.Payload.Cmd))
		return d, &dg.Datagram
	}
	cmd := dg.Datagram.Payload.Cmd[0]
	d.Flt = filterShape(cmd)
	cd, err := cmd.Data()
	if err != nil || cd.Function == nil {
		d.Fn = "?"
		return d, &dg.Datagram
	}
	d.Fn = fnAbs(*cd.Function)
	switch v := cd.Value.(type) {
	case *model.ResultDataType:
		d.Fn = ""
		d.Ok = v.ErrorNumber != nil && *v.ErrorNumber == 0
	case *model.NodeManagementSubscriptionDataType:
		for _, e := range v.SubscriptionEntry {
			d.Ents = append(d.Ents, AbsEnt{C: s.remoteName(p, e.ClientAddress), S: s.localName(e.ServerAddress)})
			if e.SubscriptionId != nil {
				d.Ids = append(d.Ids, uint64(*e.SubscriptionId))
			}
		}
	case *model.NodeManagementUseCaseDataType:
		d.Ucs = absUcs(v)
	case *model.NodeManagementBindingDataType:
		for _, e := range v.BindingEntry {
			d.Ents = append(d.Ents, AbsEnt{C: s.remoteName(p, e.ClientAddress), S: s.localName(e.ServerAddress)})
			if e.BindingId != nil {
				d.Ids = append(d.Ids, uint64(*e.BindingId))
			}
		}
	default:
		if d.K == "reply" || d.K == "notify" {
			if d.Fn == "limit" || d.Fn == "kv" || d.Fn == "meas" {
				d.Val = dataVal(*cd.Function, cd.Value)
			}
		}
	}
	sort.Slice(d.Ents, func(i, j int) bool { return d.Ents[i].C+d.Ents[i].S < d.Ents[j].C+d.Ents[j].S })
	return d, &dg.Datagram
}

func (s *System) recordEvent(pl api.EventPayload) {
	pn, ok := s.skiTo[pl.Ski]
	if !ok {
		return // event of another system instance (cannot happen: systems are torn down)
	}
	p := s.peers[pn]
	e := AbsEvent{P: pn}
	switch pl.ChangeType {
	case api.ElementChangeAdd:
		e.Chg = "add"
	case api.ElementChangeRemove:
		e.Chg = "remove"
	case api.ElementChangeUpdate:
		e.Chg = "update"
	}
	featName := func() string {
		if pl.Feature == nil || isNilIface(pl.Feature) {
			return "nil"
		}
		return s.remoteName(p, pl.Feature.Address())
	}
	lfName := func() string {
		if pl.LocalFeature == nil || isNilIface(pl.LocalFeature) {
			return "nil"
		}
		return s.localName(pl.LocalFeature.Address())
	}
	switch pl.EventType {
	case api.EventTypeDeviceChange:
		e.T = "dev"
	case api.EventTypeEntityChange:
		e.T = "ent"
		if pl.Entity != nil && !isNilIface(pl.Entity) {
			e.E = entStr(pl.Entity.Address().Entity)
		}
	case api.EventTypeSubscriptionChange:
		e.T = "sub"
		e.C, e.S = featName(), lfName()
	case api.EventTypeBindingChange:
		e.T = "bind"
		e.C, e.S = featName(), lfName()
	case api.EventTypeDataChange:
		e.T = "data"
		if pl.CmdClassifier != nil {
			e.Chg = string(*pl.CmdClassifier)
		}
		e.C, e.S = featName(), lfName()
		if pl.LocalFeature == nil || isNilIface(pl.LocalFeature) {
			e.S = ""
		}
	default:
		e.T = fmt.Sprint(pl.EventType)
	}
	s.evMu.Lock()
	s.events = append(s.events, e)
	s.evMu.Unlock()
}

func (s *System) drainEvents() []AbsEvent {
	s.evMu.Lock()
	defer s.evMu.Unlock()
	e := s.events
	s.events = nil
	if e == nil {
		e = []AbsEvent{}
	}
	return e
}
