package main

// Forced schedules of the write approval mechanism (spec/Approval.tla) on the real FeatureLocal (C12, C10 timer clause).

import (
	"bufio"
	"encoding/json"
	"flag"
	"fmt"
	"os"
	"runtime"
	"sort"
	"strconv"
	"strings"
	"sync"
	"time"

	"github.com/enbility/spine-go/api"
	"github.com/enbility/spine-go/model"
)

type ApprovalCfg struct {
	Verdict map[string][]string `json:"verdict"`
	Expires map[string]bool     `json:"expires"`
	Sched   []string            `json:"sched"`
	Unsafe  bool                `json:"unsafe"`
	// C10 variant: the connection is removed at this position of the schedule (-1 = never)
	Disconnect int `json:"disconnect"`
	// late expiry: the timeout of these writes elapses in real time while the schedule runs (not before it starts)
	Late map[string]bool `json:"late"`
	// split timer: the timer callback is parked again where it draws the counter of its error result, the next step of
	// the schedule runs inside that window, then the callback finishes (it decided when it ran first: same outcome)
	SplitTimer int `json:"splittimer"` // number of schedule steps that run inside the window (0 = no split)
	// split verdict: a deciding verdict is parked once more after it stopped the timer (it holds the decision lock there)
	// while the next steps of the schedule run
	SplitVerdict int `json:"splitverdict"`
	// an uninvolved second peer is connected and its connection is removed at this position of the schedule (-1 = never):
	// the outcomes of the first peer's writes do not depend on it
	OtherDisc int `json:"otherdisc"`
	// second epoch: after the schedule the connection is removed, the peer connects again (same SKI, its message counters
	// start again, so its writes carry the counters of the first epoch), binds again and writes again; this is the
	// configuration of that second round.  What the first epoch left behind must not show.
	Round2 *ApprovalCfg `json:"round2,omitempty"`
}
type PStep struct {
	K string `json:"k"`
	W string `json:"w"`
	C int    `json:"c"`
}
type ApprovalLine struct {
	Verdict      map[string][]string `json:"verdict"`
	Expires      map[string]bool     `json:"expires"`
	Sched        []string            `json:"sched"`
	PSched       []PStep             `json:"psched"`
	Unsafe       bool                `json:"unsafe"`
	Realised     bool                `json:"realised"`
	Blocked      int                 `json:"blocked"`
	Outcomes     map[string][]string `json:"outcomes"`
	Presented    map[string][]int    `json:"presented"`
	Values       map[string]int      `json:"values"`
	Data         int                 `json:"data"`
	Panic        string              `json:"panic"`
	AfterDisc    int                 `json:"afterdisc"` // datagrams written to the connection after it was removed
	Disconnect   int                 `json:"disconnect"`
	SplitVerdict int                 `json:"splitverdict"`
	OtherDisc    int                 `json:"otherdisc"`
	SplitTimer   int                 `json:"splittimer"`
	Late         map[string]bool     `json:"late"`
	Epoch        int                 `json:"epoch"`
	Data0        int                 `json:"data0"`            // the data before the writes of this epoch arrived
	Origin       *ApprovalCfg        `json:"origin,omitempty"` // the complete two-epoch configuration (for the replay file)
}

func parseStep(name string) PStep {
	parts := strings.Split(name, ":")
	if parts[0] == "t" {
		return PStep{K: "t", W: parts[1]}
	}
	c, _ := strconv.Atoi(parts[2])
	return PStep{K: "v", W: parts[1], C: c}
}

func approvalReplay(args []string) {
	fs := flag.NewFlagSet("approval-replay", flag.ExitOnError)
	topoF := fs.String("topo", "", "")
	inF := fs.String("in", "", "")
	outF := fs.String("out", "", "")
	must(fs.Parse(args))
	tb, err := os.ReadFile(*topoF)
	must(err)
	topo, err := parseTopo(tb)
	must(err)
	in, err := os.Open(*inF)
	must(err)
	defer in.Close()
	out, err := os.Create(*outF)
	must(err)
	defer out.Close()
	enc := json.NewEncoder(out)
	sc := bufio.NewScanner(in)
	sc.Buffer(make([]byte, 1<<20), 1<<26)
	n := 0
	for sc.Scan() {
		c := ApprovalCfg{Disconnect: -1, OtherDisc: -1, Late: map[string]bool{}}
		must(json.Unmarshal(sc.Bytes(), &c))
		// a schedule that deadlocks the stack must not hang the check: after 20 s the line is written as a hang and the
		// process ends (nothing after it in this process can be trusted)
		done := make(chan []ApprovalLine, 1)
		go func() { done <- runApproval(topo, c) }()
		select {
		case lines := <-done:
			for _, line := range lines {
				must(enc.Encode(line))
			}
		case <-time.After(20 * time.Second):
			line := ApprovalLine{Epoch: 1, Verdict: c.Verdict, Expires: c.Expires, Sched: c.Sched, PSched: []PStep{}, Unsafe: c.Unsafe, Blocked: -1, Disconnect: c.Disconnect,
				SplitTimer: c.SplitTimer, SplitVerdict: c.SplitVerdict, OtherDisc: c.OtherDisc, Late: c.Late, Outcomes: map[string][]string{}, Presented: map[string][]int{}, Values: map[string]int{},
				Panic: "hang: the schedule did not finish within 20 s (a call of the stack blocks forever)"}
			for w, v := range c.Verdict {
				line.Outcomes[w] = []string{}
				line.Presented[w] = make([]int, len(v))
				line.Values[w] = 0
			}
			must(enc.Encode(line))
			out.Close()
			fmt.Printf("{\"schedules\": %d, \"hung\": true}\n", n+1)
			os.Exit(0)
		}
		n++
	}
	fmt.Printf("{\"schedules\": %d}\n", n)
}

func newApprovalLine(c ApprovalCfg, epoch int) *ApprovalLine {
	line := ApprovalLine{Epoch: epoch, Verdict: c.Verdict, Expires: c.Expires, Sched: c.Sched, Unsafe: c.Unsafe, Blocked: -1, Realised: true, Disconnect: c.Disconnect, SplitTimer: c.SplitTimer, SplitVerdict: c.SplitVerdict, OtherDisc: c.OtherDisc, Late: c.Late,
		Outcomes: map[string][]string{}, Presented: map[string][]int{}, Values: map[string]int{}}
	line.PSched = []PStep{} // the steps in the order in which they really ran (a held or blocked verdict ends later than scheduled)
	return &line
}

func runApproval(topo *Topo, c ApprovalCfg) []ApprovalLine {
	s := NewSystem(topo)
	defer s.Close()
	p := s.peers["p1"]
	s.step(Action{"a": "connect", "p": "p1"})
	s.step(Action{"a": "discover", "p": "p1", "ents": []any{"1", "2"}, "ack": false})
	s.step(Action{"a": "bind", "p": "p1", "c": "c11", "s": "S1", "ft": "LoadControl", "ack": false})
	if c.OtherDisc >= 0 {
		s.step(Action{"a": "connect", "p": "p2"})
		s.step(Action{"a": "discover", "p": "p2", "ents": []any{"1", "2"}, "ack": false})
	}
	S1 := s.lfeat["S1"]
	ncb := 0
	for _, v := range c.Verdict {
		ncb = len(v)
	}
	var mu sync.Mutex
	msgs := map[uint64]*api.Message{} // counter -> message presented
	presented := map[uint64][]int{}   // counter -> invocations per callback
	for cb := 0; cb < ncb; cb++ {
		cb := cb
		_ = S1.AddWriteApprovalCallback(func(msg *api.Message) {
			mu.Lock()
			defer mu.Unlock()
			ctr := uint64(*msg.RequestHeader.MsgCounter)
			msgs[ctr] = msg
			if presented[ctr] == nil {
				presented[ctr] = make([]int, ncb)
			}
			presented[ctr][cb]++
		})
	}
	line1 := newApprovalLine(c, 1)
	approvalRound(s, p, S1, c, line1, &mu, msgs, presented, ncb)
	if c.Round2 == nil {
		return []ApprovalLine{*line1}
	}
	line1.Origin = &c
	// second epoch
	c2 := *c.Round2
	s.dev.RemoveRemoteDeviceConnection(p.ski)
	p.w.drain()
	p.ctr = 0
	mu.Lock()
	for k := range presented {
		delete(presented, k)
	}
	for k := range msgs {
		delete(msgs, k)
	}
	mu.Unlock()
	s.step(Action{"a": "connect", "p": "p1"})
	s.step(Action{"a": "discover", "p": "p1", "ents": []any{"1", "2"}, "ack": false})
	s.step(Action{"a": "bind", "p": "p1", "c": "c11", "s": "S1", "ft": "LoadControl", "ack": false})
	line2 := newApprovalLine(c2, 2)
	line2.Origin = &c
	approvalRound(s, p, S1, c2, line2, &mu, msgs, presented, ncb)
	return []ApprovalLine{*line1, *line2}
}

// one epoch: the writes arrive, the schedule is forced, the outcomes are read at quiescence
func approvalRound(s *System, p *Peer, S1 api.FeatureLocalInterface, c ApprovalCfg, line *ApprovalLine, mup *sync.Mutex, msgs map[uint64]*api.Message, presented map[uint64][]int, ncb int) {
	mu := mup
	var writes []string
	for w := range c.Verdict {
		writes = append(writes, w)
	}
	sort.Strings(writes)
	line.Data0 = dataVal("", S1.DataCopy(fnMap["limit"]))
	sched := NewSched()
	defer sched.Close()
	ctrOf := map[string]uint64{}
	wOf := map[uint64]string{}
	sched.classify = func(point string, args []any) string {
		if point == "WriteApproval.timerFired" && len(args) >= 2 {
			if ctr, ok := args[1].(uint64); ok {
				if w, ok := wOf[ctr]; ok {
					return "t:" + w
				}
			}
		}
		return ""
	}
	for _, w := range writes {
		if c.SplitTimer > 0 {
			sched.Add("t:"+w, []string{"WriteApproval.timerFired", "Sender.counter"}, nil)
		} else {
			sched.Add("t:"+w, []string{"WriteApproval.timerFired"}, nil)
		}
	}
	// the writes arrive (one after the other), each with its own timeout
	for i, w := range writes {
		if c.Expires[w] && c.Late[w] {
			S1.SetWriteApprovalTimeout(40 * time.Millisecond)
		} else if c.Expires[w] {
			S1.SetWriteApprovalTimeout(2 * time.Millisecond)
		} else {
			S1.SetWriteApprovalTimeout(time.Hour)
		}
		ctr := p.ctr + 1
		ctrOf[w], wOf[ctr] = ctr, w
		line.Values[w] = i + 1 + 10*(line.Epoch-1)
		s.exec(Action{"a": "write", "p": "p1", "c": "c11", "s": "S1", "fn": "limit", "v": float64(line.Values[w]), "ack": true}, p, &TraceLine{})
	}
	// every callback has been invoked for every write (they run in goroutines of the stack)
	deadline := time.Now().Add(2 * time.Second)
	for time.Now().Before(deadline) {
		mu.Lock()
		n := 0
		for _, w := range writes {
			for _, k := range presented[ctrOf[w]] {
				n += k
			}
		}
		mu.Unlock()
		if n >= ncb*len(writes) {
			break
		}
		time.Sleep(50 * time.Microsecond)
	}
	for _, w := range writes {
		if c.Expires[w] && !c.Late[w] && !sched.WaitArrive("t:"+w, 2*time.Second) {
			line.Panic = "timer of " + w + " did not fire"
		}
	}
	p.w.drain()
	for _, w := range writes {
		w := w
		for cb := 1; cb <= ncb; cb++ {
			cb := cb
			v := c.Verdict[w][cb-1]
			if v == "silent" {
				continue
			}
			vgates := []string{"ApproveOrDenyWrite.afterLookup"}
			if c.SplitVerdict > 0 {
				vgates = append(vgates, "ApproveOrDenyWrite.afterStop")
			}
			sched.Add(fmt.Sprintf("v:%s:%d", w, cb), vgates, func() {
				mu.Lock()
				msg := msgs[ctrOf[w]]
				mu.Unlock()
				if msg == nil {
					panic("write was never presented to a callback")
				}
				e := model.ErrorType{ErrorNumber: 0}
				if v == "deny" {
					e = model.ErrorType{ErrorNumber: 7, Description: ptr(model.DescriptionType("denied"))}
				}
				S1.ApproveOrDenyWrite(msg, e)
			})
		}
	}
	disconnected := false
	var midTimer *sproc // a timer callback parked inside its send
	midLeft := 0
	heldV, heldLeft := "", 0 // a verdict parked behind its timer stop
	releaseHeld := func(cur string) {
		if heldV != "" && heldV != cur {
			if heldLeft--; heldLeft <= 0 {
				sched.Step(heldV)
				line.PSched = append(line.PSched, parseStep(heldV))
				heldV = ""
			}
		}
	}
	// timer callbacks that were released and are not known to have ended (whether one has ended is read from the
	// runtime's goroutine dump by goroutine id, never from the number of goroutines: callback goroutines of the stack
	// come and go meanwhile)
	var running []*sproc
	settle := func(sp *sproc, d time.Duration) bool {
		for {
			if sp.parked != "" {
				sp.parked = ""
				sp.gate <- struct{}{}
			}
			at, ok := sched.WaitParkOrExit(sp, d)
			if !ok {
				return false
			}
			if at == "" {
				sp.done = true
				return true
			}
			sp.parked = at
		}
	}
	finishTimer := func() {
		if midTimer != nil {
			running = append(running, midTimer)
			midTimer = nil
		}
		var still []*sproc
		for _, sp := range running {
			if !settle(sp, 3*time.Second) {
				still = append(still, sp)
			}
		}
		running = still
	}
	for i, name := range c.Sched {
		if c.OtherDisc == i {
			s.dev.RemoveRemoteDeviceConnection(s.peers["p2"].ski)
		}
		if c.Disconnect == i {
			// (a send that has drawn its counter is in flight: it completes before the connection is removed - the
			// property is read for sends that start after the removal, as C16 states it for refreshes in flight)
			finishTimer()
			s.dev.RemoveRemoteDeviceConnection(p.ski)
			p.w.drain()
			disconnected = true
		}
		if strings.HasPrefix(name, "t:") {
			if c.Late[strings.TrimPrefix(name, "t:")] {
				sched.WaitArrive(name, 2*time.Second) // the timeout elapses now, in real time
			}
			finishTimer()
			sp := sched.procs[name]
			if sp != nil && sp.parked != "" {
				line.PSched = append(line.PSched, parseStep(name))
			}
			if sp == nil || sp.parked == "" {
				if line.Realised {
					line.Realised, line.Blocked = false, i
				}
				continue
			}
			sp.parked = ""
			sp.gate <- struct{}{}
			// runs until it draws the counter of its error result (parks again, split timer only) or ends
			at, ok := sched.WaitParkOrExit(sp, 3*time.Second)
			if ok && at != "" {
				sp.parked = at
				midTimer, midLeft = sp, c.SplitTimer
				releaseHeld(name)
				continue
			}
			if ok {
				sp.done = true
			} else {
				running = append(running, sp) // blocked on a lock of the stack: finished when the holder has gone on
			}
			releaseHeld(name)
			continue
		}
		line.PSched = append(line.PSched, parseStep(name))
		at, ok := sched.Step(name)
		if midLeft--; midLeft <= 0 {
			finishTimer()
		}
		// a verdict parked behind its timer stop is finished after the window, or at once if another one is held already
		releaseHeld(name)
		if ok && at == "ApproveOrDenyWrite.afterStop" {
			if heldV == "" {
				heldV, heldLeft = name, c.SplitVerdict
			} else {
				_, ok = sched.Step(name)
			}
		}
		if !ok {
			// blocked on a lock held by a parked process (the code is more atomic than the split model): the schedule is
			// not realised as given; the step completes when the holder goes on, the remaining steps are still delivered
			if line.Realised {
				line.Realised, line.Blocked = false, i
			}
			if heldV != "" && heldV != name {
				sched.Step(heldV)
				line.PSched = append(line.PSched, parseStep(heldV))
				heldV = ""
			}
			finishTimer()
			sched.Step(name)
			line.PSched = append(line.PSched, parseStep(name))
		}
	}
	if heldV != "" {
		sched.Step(heldV)
		line.PSched = append(line.PSched, parseStep(heldV))
	}
	finishTimer()
	if c.Disconnect >= len(c.Sched) {
		finishTimer()
		s.dev.RemoveRemoteDeviceConnection(p.ski)
		p.w.drain()
		disconnected = true
	}
	// release parked timers that the schedule did not run (not part of the model's behaviour: they were stopped), and
	// let every timer callback that has started come to its end
	for _, w := range writes {
		if sp := sched.procs["t:"+w]; sp != nil && sp.started && !sp.done {
			if !settle(sp, 3*time.Second) {
				line.Panic = "hang: the timeout handler of " + w + " does not return (a call of the stack blocks forever)"
			}
		}
	}
	if !sched.Drain() {
		line.Panic = "a verdict call did not return"
	}
	for _, sp := range sched.procs {
		if sp.panicV != "" {
			line.Panic = sp.name + ": " + sp.panicV
		}
	}
	deadline = time.Now().Add(2 * time.Second)
	for runtime.NumGoroutine() > s.baseG && time.Now().Before(deadline) {
		time.Sleep(100 * time.Microsecond)
	}
	for _, w := range writes {
		line.Outcomes[w] = []string{}
		mu.Lock()
		line.Presented[w] = presented[ctrOf[w]]
		mu.Unlock()
		if line.Presented[w] == nil {
			line.Presented[w] = make([]int, ncb)
		}
	}
	for _, raw := range p.w.drain() {
		if disconnected {
			line.AfterDisc++
		}
		var dg model.Datagram
		if json.Unmarshal(raw, &dg) != nil || len(dg.Datagram.Payload.Cmd) != 1 {
			continue
		}
		h := dg.Datagram.Header
		rd := dg.Datagram.Payload.Cmd[0].ResultData
		if rd == nil || h.MsgCounterReference == nil {
			continue
		}
		if w, ok := wOf[uint64(*h.MsgCounterReference)]; ok {
			if rd.ErrorNumber != nil && *rd.ErrorNumber == 0 {
				line.Outcomes[w] = append(line.Outcomes[w], "ok")
			} else {
				line.Outcomes[w] = append(line.Outcomes[w], "err")
			}
		}
	}
	line.Data = dataVal("", S1.DataCopy(fnMap["limit"]))
}
