package main

// Driver for spec/CmdAlgebra.tla (C18): every function registered for every feature type x 13 command shapes through the
// real build -> encode -> decode -> recognise chain; value-level round trip of reflectively generated values.

import (
	"bufio"
	"encoding/json"
	"flag"
	"fmt"
	"os"
	"reflect"
	"sort"
	"strings"
	"time"

	"github.com/enbility/spine-go/api"
	"github.com/enbility/spine-go/model"
	"github.com/enbility/spine-go/spine"
)

var allFeatureTypes = []model.FeatureTypeType{
	model.FeatureTypeTypeActuatorLevel, model.FeatureTypeTypeActuatorSwitch, model.FeatureTypeTypeAlarm, model.FeatureTypeTypeDataTunneling,
	model.FeatureTypeTypeDeviceClassification, model.FeatureTypeTypeDeviceDiagnosis, model.FeatureTypeTypeDirectControl, model.FeatureTypeTypeElectricalConnection,
	model.FeatureTypeTypeGeneric, model.FeatureTypeTypeHvac, model.FeatureTypeTypeLoadControl, model.FeatureTypeTypeMeasurement, model.FeatureTypeTypeMessaging,
	model.FeatureTypeTypeNetworkManagement, model.FeatureTypeTypeNodeManagement, model.FeatureTypeTypeOperatingConstraints, model.FeatureTypeTypePowerSequences,
	model.FeatureTypeTypeSensing, model.FeatureTypeTypeSetpoint, model.FeatureTypeTypeSmartEnergyManagementPs, model.FeatureTypeTypeTaskManagement,
	model.FeatureTypeTypeThreshold, model.FeatureTypeTypeTimeInformation, model.FeatureTypeTypeTimeTable, model.FeatureTypeTypeDeviceConfiguration,
	model.FeatureTypeTypeSupplyCondition, model.FeatureTypeTypeTimeSeries, model.FeatureTypeTypeTariffInformation, model.FeatureTypeTypeIncentiveTable,
	model.FeatureTypeTypeBill, model.FeatureTypeTypeIdentification, model.FeatureTypeTypeStateInformation,
}

type CmdLine struct {
	T       string `json:"t"`
	Fn      string `json:"fn"`
	Shape   string `json:"shape"`
	RFn     string `json:"rfn"`
	Payload bool   `json:"payload"`
	Partial bool   `json:"partial"`
	Delete  bool   `json:"delete"`
	// per filter: 0 = absent, 1 = present and equal to what was given, 2 = present but different / not given
	PSel     int    `json:"psel"`
	PElem    int    `json:"pelem"`
	DSel     int    `json:"dsel"`
	DElem    int    `json:"delem"`
	FilterFn bool   `json:"filterfn"`
	Panic    string `json:"panic"`
	Second   bool   `json:"second"` // second run of the shape on the same function data object
	Ok       bool   `json:"ok"`
	What     string `json:"what"`
}

// the selector / elements type of a function by the NAMING convention of the wire format (json names), independent of
// the eebus tags that the stack itself uses
func filterFieldFor(fn string, suffix string) (reflect.StructField, bool) {
	t := reflect.TypeOf(model.FilterType{})
	var names []string
	if suffix == "Selectors" {
		names = []string{fn + "Selectors"}
	} else {
		names = []string{strings.Replace(fn, "ListData", "Data", 1) + "Elements", fn + "Elements"}
	}
	for i := 0; i < t.NumField(); i++ {
		j := strings.Split(t.Field(i).Tag.Get("json"), ",")[0]
		for _, n := range names {
			if j == n {
				// an element function (xData) whose list function (xListData) exists shares the field with it: the list function owns it
				if suffix == "Elements" && !strings.Contains(fn, "ListData") && strings.HasSuffix(fn, "Data") {
					if _, listExists := reflect.TypeOf(model.CmdType{}).FieldByNameFunc(func(name string) bool {
						return strings.EqualFold(name, strings.TrimSuffix(fn, "Data")+"ListData")
					}); listExists {
						return reflect.StructField{}, false
					}
				}
				return t.Field(i), true
			}
		}
	}
	return reflect.StructField{}, false
}

// fill gives every settable field of a value a non-zero content (depth limited); deterministic
func fill(v reflect.Value, depth int, seed *int) {
	*seed++
	switch v.Kind() {
	case reflect.Ptr:
		if depth <= 0 && v.Type().Elem().Kind() == reflect.Struct {
			return
		}
		v.Set(reflect.New(v.Type().Elem()))
		fill(v.Elem(), depth, seed)
	case reflect.Struct:
		if v.Type() == reflect.TypeOf(model.TimePeriodType{}) {
			// absolute start and end time: encoded and decoded as they are
			tp := model.TimePeriodType{StartTime: model.NewAbsoluteOrRelativeTimeTypeFromTime(time.Date(2035, 1, 2, 3, 4, 5, 0, time.UTC)),
				EndTime: model.NewAbsoluteOrRelativeTimeTypeFromTime(time.Date(2035, 6, 7, 8, 9, 10, 0, time.UTC))}
			v.Set(reflect.ValueOf(tp))
			return
		}
		for i := 0; i < v.NumField(); i++ {
			if v.Field(i).CanSet() {
				fill(v.Field(i), depth-1, seed)
			}
		}
	case reflect.Slice:
		if depth <= 0 {
			return
		}
		s := reflect.MakeSlice(v.Type(), 1, 1)
		fill(s.Index(0), depth-1, seed)
		v.Set(s)
	case reflect.String:
		v.SetString(fmt.Sprintf("s%d", *seed%97))
	case reflect.Bool:
		v.SetBool(*seed%2 == 0)
	case reflect.Int, reflect.Int8, reflect.Int16, reflect.Int32, reflect.Int64:
		v.SetInt(int64(1 + *seed%7))
	case reflect.Uint, reflect.Uint8, reflect.Uint16, reflect.Uint32, reflect.Uint64:
		v.SetUint(uint64(1 + *seed%7))
	case reflect.Float32, reflect.Float64:
		v.SetFloat(float64(*seed%9) + 0.5)
	}
}

func firstFieldSet(t reflect.Type) reflect.Value {
	v := reflect.New(t)
	seed := 3
	for i := 0; i < v.Elem().NumField(); i++ {
		f := v.Elem().Field(i)
		if f.CanSet() && f.Kind() == reflect.Ptr {
			fill(f, 1, &seed)
			if !f.IsNil() {
				break
			}
		}
	}
	return v
}

// normalise: nil and empty lists are not distinguished
func normJSON(v any) string {
	b, _ := json.Marshal(v)
	var x any
	_ = json.Unmarshal(b, &x)
	var strip func(any) any
	strip = func(a any) any {
		switch t := a.(type) {
		case map[string]any:
			for k, e := range t {
				e2 := strip(e)
				if l, ok := e2.([]any); ok && len(l) == 0 {
					delete(t, k)
					continue
				}
				if e2 == nil {
					delete(t, k)
					continue
				}
				t[k] = e2
			}
			return t
		case []any:
			for i := range t {
				t[i] = strip(t[i])
			}
			return t
		}
		return a
	}
	b, _ = json.Marshal(strip(x))
	return string(b)
}

func cmdRun(args []string) {
	// the process's local time zone is not UTC (encoding and decoding must not depend on it)
	time.Local = time.FixedZone("verif+2", 2*3600)
	fs := flag.NewFlagSet("cmd-run", flag.ExitOnError)
	outF := fs.String("out", "", "")
	must(fs.Parse(args))
	out, err := os.Create(*outF)
	must(err)
	defer out.Close()
	w := bufio.NewWriterSize(out, 1<<20)
	defer w.Flush()
	enc := json.NewEncoder(w)
	fds := map[string]api.FunctionDataCmdInterface{}
	for _, ft := range allFeatureTypes {
		for _, fd := range spine.CreateFunctionData[api.FunctionDataCmdInterface](ft) {
			fds[string(fd.FunctionType())] = fd
		}
	}
	var fns []string
	for fn := range fds {
		fns = append(fns, fn)
	}
	sort.Strings(fns)
	n := 0
	// the tables are functions: each command payload field names one function, once
	{
		seen := map[string]int{}
		t := reflect.TypeOf(model.CmdType{})
		for i := 0; i < t.NumField(); i++ {
			if f := model.EEBusTags(t.Field(i))[model.EEBusTagFunction]; f != "" {
				seen[f]++
			}
		}
		ok := true
		what := ""
		for f, c := range seen {
			if c != 1 {
				ok, what = false, what+f+" "
			}
		}
		for _, fn := range fns {
			if seen[fn] != 1 {
				ok, what = false, what+"missing:"+fn+" "
			}
		}
		must(enc.Encode(CmdLine{T: "table", Ok: ok, What: what}))
		n++
	}
	shapes := []string{"read", "read+sel", "read+elem", "reply", "full", "partial", "partial+sel", "delete+sel", "delete+elem",
		// combinations (what FeatureLocal.UpdateData passes on when it notifies)
		"delete+selelem", "delete+sel&partial+sel", "delete+elem&partial+sel", "delete+selelem&partial+sel",
		// a selector / elements object without any field set ("all")
		"read+sel0", "partial+sel0", "delete+sel0", "read+elem0", "delete+elem0"}
	// the same shapes once more in reverse order on the same function data objects: what one command left behind must
	// not show in the next
	for i := len(shapes) - 1; i >= 0; i-- {
		shapes = append(shapes, shapes[i]+"#2")
	}
	for _, fn := range fns {
		fd := fds[fn]
		selF, hasSel := filterFieldFor(fn, "Selectors")
		elF, hasEl := filterFieldFor(fn, "Elements")
		// a value for the function, so that reply / notify carry a payload
		seed := 1
		for _, shapeRun := range shapes {
			shape := strings.TrimSuffix(shapeRun, "#2")
			if (strings.Contains(shape, "sel") && !hasSel) || (strings.Contains(shape, "elem") && !hasEl) {
				continue
			}
			line := CmdLine{T: "cmd", Fn: fn, Shape: shape, Second: shapeRun != shape}
			func() {
				defer func() {
					if r := recover(); r != nil {
						line.Panic = fmt.Sprint(r)
					}
				}()
				var sel, el any
				if strings.Contains(shape, "sel0") {
					sel = reflect.New(selF.Type.Elem()).Interface()
				} else if strings.Contains(shape, "sel") {
					sel = firstFieldSet(selF.Type.Elem()).Interface()
				}
				if strings.Contains(shape, "elem0") {
					el = reflect.New(elF.Type.Elem()).Interface()
				} else if strings.Contains(shape, "elem") {
					el = firstFieldSet(elF.Type.Elem()).Interface()
				}
				var cmd model.CmdType
				switch shape {
				case "read":
					cmd = fd.ReadCmdType(nil, nil)
				case "read+sel", "read+sel0":
					cmd = fd.ReadCmdType(sel, nil)
				case "read+elem", "read+elem0":
					cmd = fd.ReadCmdType(nil, el)
				case "reply":
					cmd = fd.ReplyCmdType(false)
				case "full":
					cmd = fd.NotifyOrWriteCmdType(nil, nil, false, nil)
				case "partial":
					cmd = fd.NotifyOrWriteCmdType(nil, nil, true, nil)
				case "partial+sel", "partial+sel0":
					cmd = fd.NotifyOrWriteCmdType(nil, sel, false, nil)
				case "delete+sel", "delete+sel0":
					cmd = fd.NotifyOrWriteCmdType(sel, nil, false, nil)
				case "delete+elem", "delete+elem0":
					cmd = fd.NotifyOrWriteCmdType(nil, nil, false, el)
				case "delete+selelem":
					cmd = fd.NotifyOrWriteCmdType(sel, nil, false, el)
				case "delete+sel&partial+sel":
					cmd = fd.NotifyOrWriteCmdType(sel, sel, false, nil)
				case "delete+elem&partial+sel":
					cmd = fd.NotifyOrWriteCmdType(nil, sel, false, el)
				case "delete+selelem&partial+sel":
					cmd = fd.NotifyOrWriteCmdType(sel, sel, false, el)
				}
				b, err := json.Marshal(cmd)
				if err != nil {
					line.Panic = "marshal: " + err.Error()
					return
				}
				var back model.CmdType
				if err := json.Unmarshal(b, &back); err != nil {
					line.Panic = "unmarshal: " + err.Error()
					return
				}
				if cd, err := back.Data(); err == nil && cd.Function != nil {
					line.RFn = string(*cd.Function)
					// the payload has the function's payload type
					want := reflect.TypeOf(fd.DataCopyAny())
					line.Payload = reflect.TypeOf(cd.Value) == want
				}
				fp, fdl := back.ExtractFilter()
				line.Partial, line.Delete = fp != nil, fdl != nil
				cmp := func(got, given any) int {
					if got == nil || isNilIface(got) {
						return 0
					}
					if given != nil && normJSON(got) == normJSON(given) && reflect.TypeOf(got) == reflect.TypeOf(given) {
						return 1
					}
					return 2
				}
				for i, f := range []*model.FilterType{fp, fdl} {
					if f == nil {
						continue
					}
					if d, err := f.Data(); err == nil {
						if d.Function != nil && string(*d.Function) == fn {
							line.FilterFn = true
						}
						if i == 0 {
							line.PSel, line.PElem = cmp(d.Selector, sel), cmp(d.Elements, el)
						} else {
							line.DSel, line.DElem = cmp(d.Selector, sel), cmp(d.Elements, el)
						}
					}
				}
			}()
			must(enc.Encode(line))
			n++
		}
		// value-level round trip of generated values of the payload, selector and elements types
		types := []reflect.Type{reflect.TypeOf(fd.DataCopyAny()).Elem()}
		if hasSel {
			types = append(types, selF.Type.Elem())
		}
		if hasEl {
			types = append(types, elF.Type.Elem())
		}
		for _, t := range types {
			for depth := 1; depth <= 4; depth++ {
				line := CmdLine{T: "value", Fn: fn, What: t.Name(), Shape: fmt.Sprint("depth", depth)}
				func() {
					defer func() {
						if r := recover(); r != nil {
							line.Panic, line.Ok = fmt.Sprint(r), false
						}
					}()
					v := reflect.New(t)
					fill(v.Elem(), depth, &seed)
					b, err := json.Marshal(v.Interface())
					if err != nil {
						return
					}
					back := reflect.New(t)
					if err := json.Unmarshal(b, back.Interface()); err != nil {
						return
					}
					line.Ok = normJSON(back.Interface()) == normJSON(v.Interface()) && valuesEquivalent(v.Interface(), back.Interface())
				}()
				must(enc.Encode(line))
				n++
			}
		}
	}
	fmt.Printf("{\"lines\": %d, \"functions\": %d}\n", n, len(fns))
}

// valuesEquivalent compares the decoded value with the original structurally (not through the encoder under test):
// nil and empty slices are the same
func valuesEquivalent(a, b any) bool {
	return eqv(reflect.ValueOf(a), reflect.ValueOf(b))
}
func eqv(a, b reflect.Value) bool {
	if a.Kind() != b.Kind() {
		return false
	}
	switch a.Kind() {
	case reflect.Ptr, reflect.Interface:
		if a.IsNil() || b.IsNil() {
			return a.IsNil() == b.IsNil() || (a.IsNil() && isEmpty(b)) || (b.IsNil() && isEmpty(a))
		}
		return eqv(a.Elem(), b.Elem())
	case reflect.Struct:
		for i := 0; i < a.NumField(); i++ {
			if !eqv(a.Field(i), b.Field(i)) {
				return false
			}
		}
		return true
	case reflect.Slice:
		if a.Len() != b.Len() {
			return false
		}
		for i := 0; i < a.Len(); i++ {
			if !eqv(a.Index(i), b.Index(i)) {
				return false
			}
		}
		return true
	case reflect.String:
		return a.String() == b.String()
	case reflect.Bool:
		return a.Bool() == b.Bool()
	case reflect.Int, reflect.Int8, reflect.Int16, reflect.Int32, reflect.Int64:
		return a.Int() == b.Int()
	case reflect.Uint, reflect.Uint8, reflect.Uint16, reflect.Uint32, reflect.Uint64:
		return a.Uint() == b.Uint()
	case reflect.Float32, reflect.Float64:
		return a.Float() == b.Float()
	}
	return true
}
func isEmpty(v reflect.Value) bool {
	for v.Kind() == reflect.Ptr {
		if v.IsNil() {
			return true
		}
		v = v.Elem()
	}
	switch v.Kind() {
	case reflect.Slice:
		return v.Len() == 0
	case reflect.Struct:
		for i := 0; i < v.NumField(); i++ {
			if !isEmpty(v.Field(i)) {
				return false
			}
		}
		return true
	}
	return false
}
