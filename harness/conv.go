package main

// Driver for spec/Conversions.tla (C19): forms the float64 / time values and calls the real conversion functions.

import (
	"bufio"
	"encoding/json"
	"flag"
	"fmt"
	"math"
	"math/big"
	"math/rand"
	"os"
	"strconv"
	"time"

	"github.com/enbility/spine-go/model"
)

func convRun(args []string) {
	// the process's local time zone is not UTC (conversions must not depend on it)
	time.Local = time.FixedZone("verif+2", 2*3600)
	fs := flag.NewFlagSet("conv-run", flag.ExitOnError)
	seed := fs.Int64("seed", 1, "")
	kmax := fs.Int("kmax", 20000, "dense range of k")
	shardI := fs.Int("shard", 0, "")
	shardN := fs.Int("shards", 1, "")
	outF := fs.String("out", "", "")
	must(fs.Parse(args))
	out, err := os.Create(*outF)
	must(err)
	defer out.Close()
	w := bufio.NewWriterSize(out, 1<<20)
	defer w.Flush()
	enc := json.NewEncoder(w)
	n := 0
	emit := func(v any) { must(enc.Encode(v)); n++ }
	// 1. dense decimals k * 10^-d
	idx := 0
	for d := 0; d <= 4; d++ {
		for k := -*kmax; k <= *kmax; k++ {
			idx++
			if idx%*shardN != *shardI {
				continue
			}
			// the float64 nearest to the decimal, as a user would write it
			v, _ := strconv.ParseFloat(fmt.Sprintf("%de-%d", k, d), 64)
			sn := model.NewScaledNumberType(v)
			line := map[string]any{"t": "dec", "k": k, "d": d, "number": 0, "scale": 99, "getvalue": false}
			if sn != nil && sn.Number != nil && sn.Scale != nil {
				line["number"], line["scale"] = int64(*sn.Number), int(*sn.Scale)
				line["getvalue"] = math.Abs(sn.GetValue()-v) <= 1e-12*math.Max(1, math.Abs(v))
			}
			emit(line)
		}
	}
	if *shardI == 0 {
		rnd := rand.New(rand.NewSource(*seed))
		// 2. magnitudes up to 10^14: within 0.0001 (exact rational arithmetic)
		within := func(v float64, tol *big.Rat) bool {
			sn := model.NewScaledNumberType(v)
			if sn == nil || sn.Number == nil || sn.Scale == nil {
				return false
			}
			rep := new(big.Rat).SetInt64(int64(*sn.Number))
			p := new(big.Rat).SetInt(new(big.Int).Exp(big.NewInt(10), big.NewInt(int64(math.Abs(float64(*sn.Scale)))), nil))
			if *sn.Scale >= 0 {
				rep.Mul(rep, p)
			} else {
				rep.Quo(rep, p)
			}
			exact := new(big.Rat)
			exact.SetFloat64(v)
			diff := new(big.Rat).Sub(rep, exact)
			diff.Abs(diff)
			return diff.Cmp(tol) <= 0
		}
		bigLine := func(v float64) map[string]any {
			// decimals the conversion uses: those of the shortest representation, at most 4
			txt := strconv.FormatFloat(v, 'f', -1, 64)
			nd := 0
			for i := 0; i < len(txt); i++ {
				if txt[i] == '.' {
					nd = len(txt) - i - 1
				}
			}
			if nd > 4 {
				nd = 4
			}
			// "within 0.0001 of itself": a float64 stands for every real number within half its spacing
			tol := new(big.Rat).SetFloat64((math.Nextafter(math.Abs(v), math.Inf(1)) - math.Abs(v)) / 2)
			tol.Add(tol, big.NewRat(1, 10000))
			return map[string]any{"t": "big", "v": v, "within": within(v, tol), "near": within(v, big.NewRat(2, 100)),
				"large": nd > 0 && math.Abs(v)*math.Pow(10, float64(nd)) >= 2251799813685248}
		}
		for e := -7; e <= 13; e++ {
			for i := 0; i < 400; i++ {
				m := rnd.Float64()*9 + 1
				v := m * math.Pow(10, float64(e))
				if rnd.Intn(2) == 0 {
					v = -v
				}
				emit(bigLine(v))
			}
			for _, m := range []float64{1, 1.5, 2.25, 9.9999, 1.2345, 7.00001, 3.33333333} {
				v := m * math.Pow(10, float64(e))
				emit(bigLine(v))
			}
		}
		// 3. durations n * 100 ms: dense to 2 h, then geometric up to years
		dur := func(units int64) {
			d := time.Duration(units) * 100 * time.Millisecond
			dt := model.NewDurationType(d)
			back, err := dt.GetTimeDuration()
			backUnits := int64(-1)
			if err == nil && back%(100*time.Millisecond) == 0 {
				backUnits = int64(back / (100 * time.Millisecond))
			}
			fits := units < 2000000000 && backUnits < 2000000000
			line := map[string]any{"t": "dur", "text": string(*dt), "fits": fits, "eq": err == nil && back == d,
				"calendar": usesCalendarUnits(string(*dt)), // the formatter switched to years / months
				"long":     d >= 3276*24*time.Hour}         // ... which it does from 3276 days on (its day field is an int16 of tenths)
			if fits {
				line["units"], line["back"] = units, backUnits
			} else {
				line["units"], line["back"] = 0, 0
			}
			emit(line)
		}
		for u := int64(0); u <= 72000; u++ {
			dur(u)
		}
		for u := int64(72000); u < 10*365*24*36000; u = u*21/20 + 1 {
			dur(u)
			dur(u - u%36000) // whole hours
		}
		for _, h := range []int64{24, 25, 48, 24 * 7, 24 * 30, 24 * 31, 24 * 365, 24 * 366, 87600} {
			dur(h * 36000)
		}
		// 4. instants with whole seconds across years 1..9999
		for i := 0; i < 20000; i++ {
			var sec int64
			if i < 9999 {
				sec = time.Date(i+1, time.Month(1+i%12), 1+i%28, i%24, i%60, (i*7)%60, 0, time.UTC).Unix()
			} else {
				sec = rnd.Int63n(253402300799+62135596800) - 62135596800
			}
			t := time.Unix(sec, 0).UTC()
			// an instant is the same instant in any location: three of four are presented in a non-UTC zone
			if zones := []int{0, 3600, -5 * 3600, 5*3600 + 45*60}; i%4 != 0 {
				t = t.In(time.FixedZone("zone", zones[i%4]))
			}
			a := model.NewAbsoluteOrRelativeTimeTypeFromTime(t)
			back, err := a.GetTime()
			d := model.NewDateTimeTypeFromTime(t)
			back2, err2 := d.GetTime()
			emit(map[string]any{"t": "inst", "text": string(*a), "eq": err == nil && back.Equal(t) && err2 == nil && back2.Equal(t)})
		}
		// 5. relative end time of a time period: read back as the remaining duration to the second
		for i := 0; i < 300; i++ {
			// sample away from the half-second boundary (the conversion rounds to seconds against the clock)
			for {
				ns := time.Now().Nanosecond()
				if ns > 150e6 && ns < 350e6 {
					break
				}
				time.Sleep(5 * time.Millisecond)
			}
			want := time.Duration(1+rnd.Intn(86400*3)) * time.Second
			if i%3 == 1 {
				want = time.Duration(1+rnd.Intn(86400*1000)) * time.Second // up to 1000 days (below the long-duration finding)
			}
			tp := model.NewTimePeriodTypeWithRelativeEndTime(want)
			b, err := json.Marshal(tp)
			var back model.TimePeriodType
			if i%2 == 0 {
				// decoded into a value that held another period before (with a start time): nothing of it may survive
				_ = json.Unmarshal([]byte(`{"startTime":"2035-01-02T03:04:05Z","endTime":"2035-06-07T08:09:10Z"}`), &back)
			}
			diff := int64(99999)
			if err == nil && json.Unmarshal(b, &back) == nil {
				if got, e2 := back.GetDuration(); e2 == nil {
					diff = int64((got - want) / time.Second)
				}
			}
			emit(map[string]any{"t": "period", "diff": diff})
		}
	}
	fmt.Printf("{\"lines\": %d}\n", n)
}

// usesCalendarUnits: the date part of an ISO 8601 duration text uses years or months
func usesCalendarUnits(text string) bool {
	for i := 0; i < len(text); i++ {
		if text[i] == 'T' {
			return false
		}
		if text[i] == 'Y' || text[i] == 'M' {
			return true
		}
	}
	return false
}
