package main

// Executor for the behaviours of spec/SpineCore.tla: every abstract input is turned
// into a real API call or a real inbound datagram; after each step the complete
// writer log of every peer, the events seen by a synchronous core-level observer and
// the projected abstract state are logged as one ndjson line.

import (
	"encoding/json"
	"fmt"
	"reflect"
	"runtime/debug"
	"strings"
	"sort"

	"github.com/enbility/spine-go/api"
	"github.com/enbility/spine-go/model"
	"github.com/enbility/spine-go/spine"
)

type Action map[string]any

func (a Action) str(k string) string {
	if v, ok := a[k].(string); ok {
		return v
	}
	return ""
}
func (a Action) boolean(k string) bool { v, _ := a[k].(bool); return v }
func (a Action) num(k string) int {
	if v, ok := a[k].(float64); ok {
		return int(v)
	}
	return 0
}
func (a Action) strs(k string) []string {
	var r []string
	if v, ok := a[k].([]any); ok {
		for _, x := range v {
			if s, ok := x.(string); ok {
				r = append(r, s)
			}
		}
	}
	sort.Strings(r)
	return r
}

type AbsState struct {
	Conn   []string            `json:"conn"`
	Known  map[string][]string `json:"known"`
	Subs   []RegEntry          `json:"subs"`
	Binds  []RegEntry          `json:"binds"`
	SubIds []uint64            `json:"subids"`
	BindIds []uint64           `json:"bindids"`
	CSub   []CEntry            `json:"csub"`
	CBind  []CEntry            `json:"cbind"`
	Data   map[string]int      `json:"data"`
	RData  map[string]int      `json:"rdata"`
	Res    map[string]bool     `json:"res"`  // peer resolvable by SKI
	ResA   map[string]bool     `json:"resa"` // peer resolvable by device address
}
type RegEntry struct {
	P string `json:"p"`
	C string `json:"c"`
	S string `json:"s"`
}
type CEntry struct {
	K string `json:"k"`
	P string `json:"p"`
	R string `json:"r"`
}

type TraceLine struct {
	A   Action             `json:"a"`
	Out map[string][]AbsDg `json:"out"` // replies, results, notifies per connection
	Req map[string][]AbsDg `json:"req"` // requests the stack originated (followed)
	Ev  []AbsEvent         `json:"ev"`
	St  *AbsState          `json:"st"`
	Ret string             `json:"ret"`
	Pan string             `json:"panic"`
}

func isNilIface(v any) bool {
	if v == nil {
		return true
	}
	rv := reflect.ValueOf(v)
	switch rv.Kind() {
	case reflect.Ptr, reflect.Map, reflect.Slice, reflect.Interface, reflect.Func, reflect.Chan:
		return rv.IsNil()
	}
	return false
}

// ---------- injection ----------

func (s *System) inject(p *Peer, cls model.CmdClassifierType, src, dst *model.FeatureAddressType, ack bool, ref *uint64, cmd model.CmdType) uint64 {
	p.ctr++
	ctr := model.MsgCounterType(p.ctr)
	h := model.HeaderType{
		SpecificationVersion: &spine.SpecificationVersion,
		AddressSource:        src,
		AddressDestination:   dst,
		MsgCounter:           &ctr,
		CmdClassifier:        &cls,
	}
	if ack {
		h.AckRequest = &ack
	}
	if ref != nil {
		r := model.MsgCounterType(*ref)
		h.MsgCounterReference = &r
	}
	dg := model.Datagram{Datagram: model.DatagramType{Header: h, Payload: model.PayloadType{Cmd: []model.CmdType{cmd}}}}
	b, err := json.Marshal(dg)
	if err != nil {
		panic(err)
	}
	if p.reader != nil {
		p.reader.HandleShipPayloadMessage(b)
	}
	return p.ctr
}

func (s *System) nmLocal() *model.FeatureAddressType { return s.localAddr("NM") }

// discovery payload announcing the given entities of peer p (features from the topology)
func (s *System) discoveryData(p *Peer, ents []string, state *model.NetworkManagementStateChangeType, withFeatures bool, devInEnt bool) *model.NodeManagementDetailedDiscoveryDataType {
	dev := model.AddressDeviceType(p.devAddr)
	d := &model.NodeManagementDetailedDiscoveryDataType{
		SpecificationVersionList: &model.NodeManagementSpecificationVersionListType{SpecificationVersion: []model.SpecificationVersionDataType{"1.3.0"}},
		DeviceInformation: &model.NodeManagementDetailedDiscoveryDeviceInformationType{Description: &model.NetworkManagementDeviceDescriptionDataType{
			DeviceAddress: &model.DeviceAddressType{Device: &dev}, DeviceType: ptr(model.DeviceTypeTypeChargingStation),
			NetworkFeatureSet: ptr(model.NetworkManagementFeatureSetTypeSmart)}},
	}
	for _, e := range ents {
		ea := &model.EntityAddressType{Entity: entAddr(e)}
		if devInEnt {
			ea.Device = &dev
		}
		et := model.EntityTypeTypeEVSE
		if e == "0" {
			et = model.EntityTypeTypeDeviceInformation
		}
		d.EntityInformation = append(d.EntityInformation, model.NodeManagementDetailedDiscoveryEntityInformationType{
			Description: &model.NetworkManagementEntityDescriptionDataType{EntityAddress: ea, EntityType: &et, LastStateChange: state,
				Description: ptr(model.DescriptionType("entity " + e))}})
		if !withFeatures {
			continue
		}
		var names []string
		for n, f := range s.topo.RF {
			if f.Ent == e {
				names = append(names, n)
			}
		}
		sort.Strings(names)
		for _, n := range names {
			f := s.topo.RF[n]
			fa := s.remoteAddr(p, n)
			fd := &model.NetworkManagementFeatureDescriptionDataType{FeatureAddress: fa, FeatureType: ptr(model.FeatureTypeType(f.Type)),
				Role: ptr(model.RoleType(f.Role)), Description: ptr(model.DescriptionType("feature " + n))}
			if f.Role == "server" {
				for _, fn := range remoteServerFns(f.Type) {
					fd.SupportedFunction = append(fd.SupportedFunction, model.FunctionPropertyType{Function: ptr(fnMap[fn]),
						PossibleOperations: &model.PossibleOperationsType{Read: &model.PossibleOperationsReadType{}, Write: &model.PossibleOperationsWriteType{}}})
				}
			}
			if f.Role == "special" {
				fd.SupportedFunction = append(fd.SupportedFunction, model.FunctionPropertyType{Function: ptr(model.FunctionTypeNodeManagementDetailedDiscoveryData),
					PossibleOperations: &model.PossibleOperationsType{Read: &model.PossibleOperationsReadType{}}})
			}
			d.FeatureInformation = append(d.FeatureInformation, model.NodeManagementDetailedDiscoveryFeatureInformationType{Description: fd})
		}
	}
	return d
}

func remoteServerFns(ftype string) []string {
	switch ftype {
	case "LoadControl":
		return []string{"limit"}
	case "Measurement":
		return []string{"meas"}
	case "DeviceConfiguration":
		return []string{"kv"}
	}
	return nil
}

// ---------- one step ----------

func (s *System) step(a Action) (line TraceLine) {
	line.A = a
	line.Ret = "ok"
	var injected uint64
	var p *Peer
	if pn := a.str("p"); pn != "" {
		p = s.peers[pn]
	}
	func() {
		defer func() {
			if r := recover(); r != nil {
				line.Pan = fmt.Sprint(r) + " @ " + topFrames(debug.Stack())
				line.Ret = "panic"
			}
		}()
		injected = s.exec(a, p, &line)
	}()
	line.Out = map[string][]AbsDg{}
	line.Req = map[string][]AbsDg{}
	for _, pn := range s.topo.Peers {
		q := s.peers[pn]
		line.Out[pn] = []AbsDg{}
		line.Req[pn] = []AbsDg{}
		for _, raw := range q.w.drain() {
			inj := uint64(0)
			if p == q {
				inj = injected
			}
			d, full := s.abstractOut(q, raw, inj)
			switch d.K {
			case "result", "reply", "notify":
				line.Out[pn] = append(line.Out[pn], d)
			default:
				line.Req[pn] = append(line.Req[pn], d)
				if full != nil && full.Header.MsgCounter != nil {
					q.lastReq[d.Fn] = uint64(*full.Header.MsgCounter)
				}
			}
		}
	}
	line.Ev = s.drainEvents()
	line.St = s.project()
	return
}

func (s *System) exec(a Action, p *Peer, line *TraceLine) (injected uint64) {
	kind := a.str("a")
	ack := a.boolean("ack")
	switch kind {
	case "connect":
		p.reader = s.dev.SetupRemoteDevice(p.ski, p.w)
	case "discover":
		ents := append([]string{"0"}, a.strs("ents")...)
		var ref *uint64
		if c, ok := p.lastReq["discovery"]; ok {
			ref = &c
		}
		d := s.discoveryData(p, ents, nil, true, true)
		injected = s.inject(p, model.CmdClassifierTypeReply, s.remoteAddr(p, "nm"), s.nmLocal(), ack, ref,
			model.CmdType{NodeManagementDetailedDiscoveryData: d})
	case "disconnect":
		s.dev.RemoveRemoteDeviceConnection(p.ski)
		p.reader = nil
	case "entrem", "entadd":
		st := model.NetworkManagementStateChangeTypeRemoved
		if kind == "entadd" {
			st = model.NetworkManagementStateChangeTypeAdded
		}
		d := s.discoveryData(p, []string{a.str("e")}, &st, kind == "entadd", a.str("dev") != "omit")
		injected = s.inject(p, model.CmdClassifierTypeNotify, s.remoteAddr(p, "nm"), s.nmLocal(), ack, nil,
			model.CmdType{Function: ptr(model.FunctionTypeNodeManagementDetailedDiscoveryData), Filter: []model.FilterType{*model.NewFilterTypePartial()},
				NodeManagementDetailedDiscoveryData: d})
	case "sub", "bind", "unsub", "unbind":
		ca := s.remoteAddr(p, a.str("c"))
		sa := s.localAddr(a.str("s"))
		if a.str("dev") == "omit" {
			ca.Device = nil
		}
		if a.str("sdev") == "omit" {
			sa.Device = nil
		}
		ft := model.FeatureTypeType(a.str("ft"))
		var cmd model.CmdType
		switch kind {
		case "sub":
			cmd.NodeManagementSubscriptionRequestCall = spine.NewNodeManagementSubscriptionRequestCallType(ca, sa, ft)
		case "bind":
			cmd.NodeManagementBindingRequestCall = spine.NewNodeManagementBindingRequestCallType(ca, sa, ft)
		case "unsub":
			cmd.NodeManagementSubscriptionDeleteCall = spine.NewNodeManagementSubscriptionDeleteCallType(ca, sa)
		case "unbind":
			cmd.NodeManagementBindingDeleteCall = spine.NewNodeManagementBindingDeleteCallType(ca, sa)
		}
		injected = s.inject(p, model.CmdClassifierTypeCall, s.remoteAddr(p, "nm"), s.nmLocal(), ack, nil, cmd)
	case "listsubs":
		injected = s.inject(p, model.CmdClassifierTypeCall, s.remoteAddr(p, "nm"), s.nmLocal(), ack, nil,
			model.CmdType{NodeManagementSubscriptionData: &model.NodeManagementSubscriptionDataType{}})
	case "listbinds":
		injected = s.inject(p, model.CmdClassifierTypeCall, s.remoteAddr(p, "nm"), s.nmLocal(), ack, nil,
			model.CmdType{NodeManagementBindingData: &model.NodeManagementBindingDataType{}})
	case "write":
		cmd := model.CmdType{}
		cmd.SetDataForFunction(fnMap[a.str("fn")], mkData(a.str("fn"), a.num("v")))
		switch a.str("fel") {
		case "same":
			cmd.Function = ptr(fnMap[a.str("fn")])
		case "other":
			cmd.Function = ptr(fnMap[a.str("ofn")])
		}
		injected = s.inject(p, model.CmdClassifierTypeWrite, s.remoteAddr(p, a.str("c")), s.localAddr(a.str("s")), ack, nil, cmd)
	case "read":
		cmd := model.CmdType{}
		cmd.SetDataForFunction(fnMap[a.str("fn")], emptyData(a.str("fn")))
		injected = s.inject(p, model.CmdClassifierTypeRead, s.remoteAddr(p, a.str("c")), s.localAddr(a.str("s")), ack, nil, cmd)
	case "recv":
		cmd := s.payloadCmd(a.str("pl"), a.num("v"), a.str("cls"))
		var ref *uint64
		if cls := a.str("cls"); cls == "reply" || cls == "result" {
			ref = ptr(uint64(424242)) // well-formed replies/results carry a reference (here: to no request of ours)
		}
		injected = s.inject(p, model.CmdClassifierType(a.str("cls")), s.remoteAddr(p, a.str("c")), s.localAddr(a.str("s")), ack, ref, cmd)
	case "setdata":
		s.lfeat[a.str("s")].SetData(fnMap[a.str("fn")], mkData(a.str("fn"), a.num("v")))
	case "lsub", "lbind", "lunsub", "lunbind":
		k := s.lfeat[a.str("k")]
		ra := s.remoteAddr(p, a.str("r"))
		var err *model.ErrorType
		switch kind {
		case "lsub":
			_, err = k.SubscribeToRemote(ra)
		case "lbind":
			_, err = k.BindToRemote(ra)
		case "lunsub":
			_, err = k.RemoveRemoteSubscription(ra)
		case "lunbind":
			_, err = k.RemoveRemoteBinding(ra)
		}
		if err != nil {
			line.Ret = "err"
		}
	default:
		panic("unknown action " + kind)
	}
	return
}

func emptyData(fn string) any {
	switch fn {
	case "limit":
		return &model.LoadControlLimitListDataType{}
	case "kv":
		return &model.DeviceConfigurationKeyValueListDataType{}
	case "ldesc":
		return &model.LoadControlLimitDescriptionListDataType{}
	case "kvdesc":
		return &model.DeviceConfigurationKeyValueDescriptionListDataType{}
	case "mfr":
		return &model.DeviceClassificationManufacturerDataType{}
	case "meas":
		return &model.MeasurementListDataType{}
	}
	panic("emptyData " + fn)
}

// ---------- projection through public getters ----------

func (s *System) project() *AbsState {
	st := &AbsState{Conn: []string{}, Known: map[string][]string{}, Subs: []RegEntry{}, Binds: []RegEntry{}, SubIds: []uint64{}, BindIds: []uint64{},
		CSub: []CEntry{}, CBind: []CEntry{}, Data: map[string]int{}, RData: map[string]int{}, Res: map[string]bool{}, ResA: map[string]bool{}}
	for _, pn := range s.topo.Peers {
		p := s.peers[pn]
		st.Known[pn] = []string{}
		rd := s.dev.RemoteDeviceForSki(p.ski)
		st.Res[pn] = rd != nil
		st.ResA[pn] = s.dev.RemoteDeviceForAddress(model.AddressDeviceType(p.devAddr)) != nil
		st.RData[pn] = 0
		if rd != nil {
			if rf := rd.FeatureByAddress(s.remoteAddr(p, "s14")); rf != nil && !isNilIface(rf) {
				st.RData[pn] = dataVal(fnMap["limit"], rf.DataCopy(fnMap["limit"]))
			}
			st.Conn = append(st.Conn, pn)
			for _, e := range rd.Entities() {
				st.Known[pn] = append(st.Known[pn], entStr(e.Address().Entity))
			}
			sort.Strings(st.Known[pn])
		}
	}
	// registries are read per local feature so that entries of vanished peers are still seen
	var lnames []string
	for n := range s.lfeat {
		lnames = append(lnames, n)
	}
	sort.Strings(lnames)
	peerOf := func(f api.FeatureRemoteInterface) *Peer {
		if f == nil || isNilIface(f) || f.Device() == nil {
			return nil
		}
		if pn, ok := s.skiTo[f.Device().Ski()]; ok {
			return s.peers[pn]
		}
		return nil
	}
	for _, n := range lnames {
		f := s.lfeat[n]
		for _, e := range s.dev.SubscriptionManager().SubscriptionsOnFeature(*f.Address()) {
			p := peerOf(e.ClientFeature)
			pn := "?"
			if p != nil {
				pn = p.name
			}
			st.Subs = append(st.Subs, RegEntry{P: pn, C: s.remoteName(p, e.ClientFeature.Address()), S: s.localName(e.ServerFeature.Address())})
			st.SubIds = append(st.SubIds, e.Id)
		}
		for _, e := range s.dev.BindingManager().BindingsOnFeature(*f.Address()) {
			p := peerOf(e.ClientFeature)
			pn := "?"
			if p != nil {
				pn = p.name
			}
			st.Binds = append(st.Binds, RegEntry{P: pn, C: s.remoteName(p, e.ClientFeature.Address()), S: s.localName(e.ServerFeature.Address())})
			st.BindIds = append(st.BindIds, e.Id)
		}
		var rnames []string
		for rn := range s.topo.RF {
			rnames = append(rnames, rn)
		}
		sort.Strings(rnames)
		for _, pn := range s.topo.Peers {
			for _, rn := range rnames {
				ra := s.remoteAddr(s.peers[pn], rn)
				if f.HasSubscriptionToRemote(ra) {
					st.CSub = append(st.CSub, CEntry{K: n, P: pn, R: rn})
				}
				if f.HasBindingToRemote(ra) {
					st.CBind = append(st.CBind, CEntry{K: n, P: pn, R: rn})
				}
			}
		}
		for fn := range s.topo.LFn[n] {
			cell := n + "." + fn
			if cell == "S1.limit" || cell == "S2.limit" || cell == "S3.kv" || cell == "S4.limit" {
				st.Data[cell] = dataVal(fnMap[fn], f.DataCopy(fnMap[fn]))
			}
		}
	}
	return st
}

// payloadCmd builds the command for an abstract payload kind of the recv action
func (s *System) payloadCmd(pl string, v int, cls string) model.CmdType {
	cmd := model.CmdType{}
	switch pl {
	case "res0":
		cmd.ResultData = &model.ResultDataType{ErrorNumber: ptr(model.ErrorNumberType(0))}
	case "res1":
		cmd.ResultData = &model.ResultDataType{ErrorNumber: ptr(model.ErrorNumberType(1)), Description: ptr(model.DescriptionType("error"))}
	case "resbad":
		cmd.ResultData = &model.ResultDataType{Description: ptr(model.DescriptionType("no number"))}
	case "usecase":
		cmd.NodeManagementUseCaseData = &model.NodeManagementUseCaseDataType{}
	case "subdata":
		cmd.NodeManagementSubscriptionData = &model.NodeManagementSubscriptionDataType{}
	case "binddata":
		cmd.NodeManagementBindingData = &model.NodeManagementBindingDataType{}
	case "destlist":
		cmd.NodeManagementDestinationListData = &model.NodeManagementDestinationListDataType{}
	case "discovery":
		cmd.NodeManagementDetailedDiscoveryData = &model.NodeManagementDetailedDiscoveryDataType{}
	default:
		if cls == "read" {
			cmd.SetDataForFunction(fnMap[pl], emptyData(pl))
		} else {
			cmd.SetDataForFunction(fnMap[pl], mkData(pl, v))
		}
	}
	return cmd
}

// topFrames: the spine-go function frames of a panic stack (innermost first), without line numbers
func topFrames(stack []byte) string {
	var fr []string
	for _, l := range strings.Split(string(stack), "\n") {
		if strings.HasPrefix(l, "github.com/enbility/spine-go/") {
			f := strings.TrimPrefix(l, "github.com/enbility/spine-go/")
			if i := strings.LastIndex(f, "("); i > 0 {
				f = f[:i]
			}
			fr = append(fr, f)
			if len(fr) == 3 {
				break
			}
		}
	}
	return strings.Join(fr, " < ")
}
