package main

// Executor for the behaviours of spec/SpineCore.tla: every abstract input is turned
// into a real API call or a real inbound datagram; after each step the complete
// writer log of every peer, the events seen by a synchronous core-level observer and
// the projected abstract state are logged as one ndjson line.

import (
	"bytes"
	"encoding/json"
	"fmt"
	"reflect"
	"runtime"
	"runtime/debug"
	"sort"
	"strconv"
	"strings"
	"time"

	"github.com/enbility/spine-go/api"
	"github.com/enbility/spine-go/model"
	"github.com/enbility/spine-go/spine"
)

type Action map[string]any

func (a Action) str(k string) string {
	if v, ok := a[k].(string); ok {
		return v
	}
	return ""
}
func (a Action) boolean(k string) bool { v, _ := a[k].(bool); return v }
func (a Action) num(k string) int {
	if v, ok := a[k].(float64); ok {
		return int(v)
	}
	return 0
}
func (a Action) strs(k string) []string {
	var r []string
	if v, ok := a[k].([]any); ok {
		for _, x := range v {
			if s, ok := x.(string); ok {
				r = append(r, s)
			}
		}
	}
	sort.Strings(r)
	return r
}

type AbsState struct {
	Conn       []string                  `json:"conn"`
	Known      map[string][]string       `json:"known"`
	Feats      map[string][]FeatVer      `json:"feats"`
	Subs       []RegEntry                `json:"subs"`
	Binds      []RegEntry                `json:"binds"`
	SubIds     []uint64                  `json:"subids"`
	BindIds    []uint64                  `json:"bindids"`
	CSub       []CEntry                  `json:"csub"`
	CBind      []CEntry                  `json:"cbind"`
	Data       map[string]int            `json:"data"`
	RData      map[string]int            `json:"rdata"`
	RUcs       map[string]int            `json:"rucs"`
	UcSnapOk   bool                      `json:"ucsnapok"`   // use-case data sets handed out in earlier steps are unchanged
	AnnounceOk bool                      `json:"announceok"` // every local feature announces the operations it was configured with
	EDesc      map[string]map[string]int `json:"edesc"`      // peer -> entity -> version of its description (0 none, -1 unexpected)
	Nid        int                       `json:"nid"`
	Ucs        []AbsUc                   `json:"ucs"`
	HasUc      []UcKey                   `json:"hasuc"`
	Res        map[string]bool           `json:"res"`  // peer resolvable by SKI
	ResA       map[string]bool           `json:"resa"` // peer resolvable by device address
}
type UcKey struct {
	E     string `json:"e"`
	Actor string `json:"actor"`
	Name  string `json:"name"`
}
type FeatVer struct {
	F string `json:"f"`
	V int    `json:"v"`
}
type RegEntry struct {
	P string `json:"p"`
	C string `json:"c"`
	S string `json:"s"`
}
type CEntry struct {
	K string `json:"k"`
	P string `json:"p"`
	R string `json:"r"`
}

type TraceLine struct {
	Late int                `json:"late"` // datagrams written after the step had returned
	A    Action             `json:"a"`
	Out  map[string][]AbsDg `json:"out"` // replies, results, notifies per connection
	Req  map[string][]AbsDg `json:"req"` // requests the stack originated (followed)
	Ev   []AbsEvent         `json:"ev"`
	St   *AbsState          `json:"st"`
	Ret  string             `json:"ret"`
	Pan  string             `json:"panic"`
	Cbf  []CbFire           `json:"cbf"`
}

// CbFire: one invocation of a response / result callback registered by the harness
type CbFire struct {
	K    string `json:"k"`
	Cb   int    `json:"cb"`
	Kind string `json:"kind"`
	H    int    `json:"h"`
	Good bool   `json:"good"`
}

func isNilIface(v any) bool {
	if v == nil {
		return true
	}
	rv := reflect.ValueOf(v)
	switch rv.Kind() {
	case reflect.Ptr, reflect.Map, reflect.Slice, reflect.Interface, reflect.Func, reflect.Chan:
		return rv.IsNil()
	}
	return false
}

// ---------- injection ----------

func (s *System) inject(p *Peer, cls model.CmdClassifierType, src, dst *model.FeatureAddressType, ack bool, ref *uint64, cmd model.CmdType) uint64 {
	p.ctr++
	ctr := model.MsgCounterType(p.ctr)
	h := model.HeaderType{
		SpecificationVersion: &spine.SpecificationVersion,
		AddressSource:        src,
		AddressDestination:   dst,
		MsgCounter:           &ctr,
		CmdClassifier:        &cls,
	}
	if ack {
		h.AckRequest = &ack
	}
	if ref != nil {
		r := model.MsgCounterType(*ref)
		h.MsgCounterReference = &r
	}
	dg := model.Datagram{Datagram: model.DatagramType{Header: h, Payload: model.PayloadType{Cmd: []model.CmdType{cmd}}}}
	b, err := json.Marshal(dg)
	if err != nil {
		panic(err)
	}
	if p.reader != nil {
		p.reader.HandleShipPayloadMessage(b)
	}
	return p.ctr
}

func (s *System) nmLocal() *model.FeatureAddressType { return s.localAddr("NM") }

// discovery payload announcing the given entities of peer p (features from the topology)
func (s *System) discoveryData(p *Peer, ents []string, state *model.NetworkManagementStateChangeType, withFeatures bool, devInEnt bool) *model.NodeManagementDetailedDiscoveryDataType {
	var items []annItem
	for _, e := range ents {
		it := annItem{E: e, V: 1, State: state}
		if withFeatures {
			for n, f := range s.topo.RF {
				if f.Ent == e {
					it.Fs = append(it.Fs, n)
				}
			}
		}
		items = append(items, it)
	}
	return s.discoveryItems(p, items, devInEnt)
}

type annItem struct {
	E     string
	Fs    []string
	V     int
	State *model.NetworkManagementStateChangeType
}

// featureDescription: what version v of catalogue feature n announces (description and operations)
func (s *System) featureDescription(p *Peer, n string, v int) *model.NetworkManagementFeatureDescriptionDataType {
	f := s.topo.RF[n]
	fd := &model.NetworkManagementFeatureDescriptionDataType{FeatureAddress: s.remoteAddr(p, n), FeatureType: ptr(model.FeatureTypeType(f.Type)),
		Role: ptr(model.RoleType(f.Role)), Description: ptr(model.DescriptionType(fmt.Sprintf("feature %s v%d", n, v)))}
	ops := &model.PossibleOperationsType{Read: &model.PossibleOperationsReadType{}}
	if v == 2 {
		ops.Write = &model.PossibleOperationsWriteType{Partial: &model.ElementTagType{}}
	}
	if f.Role == "server" {
		for _, fn := range remoteServerFns(f.Type) {
			fd.SupportedFunction = append(fd.SupportedFunction, model.FunctionPropertyType{Function: ptr(fnMap[fn]), PossibleOperations: ops})
		}
	}
	if f.Role == "special" {
		fd.SupportedFunction = append(fd.SupportedFunction, model.FunctionPropertyType{Function: ptr(model.FunctionTypeNodeManagementDetailedDiscoveryData),
			PossibleOperations: &model.PossibleOperationsType{Read: &model.PossibleOperationsReadType{}}})
	}
	return fd
}

// featVersion reads the announced version back from the tree the API reports (0 = anything unexpected)
func (s *System) featVersion(n string, f api.FeatureRemoteInterface) int {
	cat, ok := s.topo.RF[n]
	if !ok || string(f.Type()) != cat.Type || string(f.Role()) != cat.Role || f.Description() == nil {
		return 0
	}
	v := 0
	switch string(*f.Description()) {
	case "feature " + n + " v1":
		v = 1
	case "feature " + n + " v2":
		v = 2
	}
	if cat.Role == "server" {
		fns := remoteServerFns(cat.Type)
		if len(f.Operations()) != len(fns) {
			return 0
		}
		for _, fn := range fns {
			op, ok := f.Operations()[fnMap[fn]]
			if !ok || !op.Read() || op.ReadPartial() || op.Write() != (v == 2) || op.WritePartial() != (v == 2) {
				return 0
			}
		}
	} else if len(f.Operations()) != 0 && cat.Role != "special" {
		return 0
	}
	return v
}

func (s *System) discoveryItems(p *Peer, items []annItem, devInEnt bool) *model.NodeManagementDetailedDiscoveryDataType {
	dev := model.AddressDeviceType(p.devAddr)
	d := &model.NodeManagementDetailedDiscoveryDataType{
		SpecificationVersionList: &model.NodeManagementSpecificationVersionListType{SpecificationVersion: []model.SpecificationVersionDataType{"1.3.0"}},
		DeviceInformation: &model.NodeManagementDetailedDiscoveryDeviceInformationType{Description: &model.NetworkManagementDeviceDescriptionDataType{
			DeviceAddress: &model.DeviceAddressType{Device: &dev}, DeviceType: ptr(model.DeviceTypeTypeChargingStation),
			NetworkFeatureSet: ptr(model.NetworkManagementFeatureSetTypeSmart)}},
	}
	for _, it := range items {
		e := it.E
		ea := &model.EntityAddressType{Entity: entAddr(e)}
		if devInEnt {
			ea.Device = &dev
		}
		et := model.EntityTypeTypeEVSE
		if e == "0" {
			et = model.EntityTypeTypeDeviceInformation
		}
		d.EntityInformation = append(d.EntityInformation, model.NodeManagementDetailedDiscoveryEntityInformationType{
			Description: &model.NetworkManagementEntityDescriptionDataType{EntityAddress: ea, EntityType: &et, LastStateChange: it.State,
				Description: ptr(model.DescriptionType(fmt.Sprintf("entity %s v%d", e, max(it.V, 1))))}})
		names := append([]string{}, it.Fs...)
		sort.Strings(names)
		for _, n := range names {
			d.FeatureInformation = append(d.FeatureInformation, model.NodeManagementDetailedDiscoveryFeatureInformationType{Description: s.featureDescription(p, n, it.V)})
		}
	}
	return d
}

func remoteServerFns(ftype string) []string {
	switch ftype {
	case "LoadControl":
		return []string{"limit"}
	case "Measurement":
		return []string{"meas"}
	case "DeviceConfiguration":
		return []string{"kv"}
	}
	return nil
}

// ---------- one step ----------

func (s *System) step(a Action) (line TraceLine) {
	line.A = a
	line.Ret = "ok"
	var injected uint64
	var p *Peer
	if pn := a.str("p"); pn != "" {
		p = s.peers[pn]
	}
	func() {
		defer func() {
			if r := recover(); r != nil {
				line.Pan = fmt.Sprint(r) + " @ " + topFrames(debug.Stack())
				line.Ret = "panic"
			}
		}()
		injected = s.exec(a, p, &line)
	}()
	line.Out = map[string][]AbsDg{}
	line.Req = map[string][]AbsDg{}
	for _, pn := range s.topo.Peers {
		q := s.peers[pn]
		line.Out[pn] = []AbsDg{}
		line.Req[pn] = []AbsDg{}
		for _, raw := range q.w.drain() {
			inj := uint64(0)
			if p == q {
				inj = injected
			}
			d, full := s.abstractOut(q, raw, inj)
			switch d.K {
			case "result", "reply", "notify":
				line.Out[pn] = append(line.Out[pn], d)
			default:
				line.Req[pn] = append(line.Req[pn], d)
				if full != nil && full.Header.MsgCounter != nil {
					q.lastReq[d.Fn] = uint64(*full.Header.MsgCounter)
				}
			}
		}
	}
	if !s.quiesce() {
		// goroutines the stack started for this input (callbacks, application-level handlers) never end: reported as a
		// hang of the step (the replay process ends after this line: nothing after it can be trusted)
		line.Ret, line.Pan = "panic", "hang: callbacks or handlers started by the stack for this input did not finish within 20 s (a call of the stack blocks forever)"
	}
	// whatever the stack does for an input is done when the call returns (only callbacks and application-level event
	// handlers run asynchronously): datagrams written after the return are counted
	for _, pn := range s.topo.Peers {
		q := s.peers[pn]
		for _, raw := range q.w.drain() {
			line.Late++
			d, full := s.abstractOut(q, raw, 0)
			switch d.K {
			case "result", "reply", "notify":
				line.Out[pn] = append(line.Out[pn], d)
			default:
				line.Req[pn] = append(line.Req[pn], d)
				if full != nil && full.Header.MsgCounter != nil {
					q.lastReq[d.Fn] = uint64(*full.Header.MsgCounter)
				}
			}
		}
	}
	line.Cbf = s.drainCbf()
	line.Ev = s.drainEvents()
	line.St = s.project()
	return
}

func (s *System) exec(a Action, p *Peer, line *TraceLine) (injected uint64) {
	kind := a.str("a")
	ack := a.boolean("ack")
	switch kind {
	case "connect":
		if strings.HasPrefix(p.name, "m") {
			// a mute peer: the connection has no write handler, every send to it fails
			p.reader = s.dev.SetupRemoteDevice(p.ski, nil)
		} else {
			p.reader = s.dev.SetupRemoteDevice(p.ski, p.w)
		}
		if s.needOffsets {
			// message counters are per connection; keep the counters of different connections apart so that
			// "the id of a request" is unambiguous in the abstraction (callbacks are keyed by counter only)
			idx := 0
			for i, n := range s.topo.Peers {
				if n == p.name {
					idx = i
				}
			}
			if rd := s.dev.RemoteDeviceForSki(p.ski); rd != nil {
				for i := 0; i < 300*idx; i++ {
					_ = rd.Sender().ResultSuccess(&model.HeaderType{AddressSource: s.remoteAddr(p, "nm"), AddressDestination: s.nmLocal(), MsgCounter: ptr(model.MsgCounterType(1))}, s.nmLocal())
				}
				var keep [][]byte
				for _, m := range p.w.drain() {
					if !bytes.Contains(m, []byte(`"cmdClassifier":"result"`)) {
						keep = append(keep, m)
					}
				}
				for _, m := range keep {
					p.w.WriteShipMessageWithPayload(m)
				}
			}
		}
	case "discover":
		ents := append([]string{"0"}, a.strs("ents")...)
		var ref *uint64
		if c, ok := p.lastReq["discovery"]; ok {
			ref = &c
		} else if strings.HasPrefix(p.name, "m") {
			ref = ptr(uint64(424242)) // (the discovery read never reached a mute peer)
		}
		d := s.discoveryData(p, ents, nil, true, true)
		injected = s.inject(p, model.CmdClassifierTypeReply, s.remoteAddr(p, "nm"), s.nmLocal(), ack, ref,
			model.CmdType{NodeManagementDetailedDiscoveryData: d})
	case "disconnect":
		s.dev.RemoveRemoteDeviceConnection(p.ski)
		p.reader = nil
	case "entrem", "entadd":
		st := model.NetworkManagementStateChangeTypeRemoved
		if kind == "entadd" {
			st = model.NetworkManagementStateChangeTypeAdded
		}
		d := s.discoveryData(p, []string{a.str("e")}, &st, kind == "entadd", a.str("dev") != "omit")
		injected = s.inject(p, model.CmdClassifierTypeNotify, s.remoteAddr(p, "nm"), s.nmLocal(), ack, nil,
			model.CmdType{Function: ptr(model.FunctionTypeNodeManagementDetailedDiscoveryData), Filter: []model.FilterType{*model.NewFilterTypePartial()},
				NodeManagementDetailedDiscoveryData: d})
	case "ann":
		kind := a.str("kind")
		var items []annItem
		if kind != "partial" {
			items = append(items, annItem{E: "0", Fs: []string{"nm"}, V: 1})
		}
		raw, _ := a["items"].([]any)
		for _, x := range raw {
			m := Action(x.(map[string]any))
			it := annItem{E: m.str("e"), Fs: m.strs("fs"), V: m.num("v")}
			if kind == "partial" {
				st := model.NetworkManagementStateChangeType(m.str("chg"))
				it.State = &st
			}
			items = append(items, it)
		}
		d := s.discoveryItems(p, items, a.str("dev") != "omit")
		cmd := model.CmdType{NodeManagementDetailedDiscoveryData: d}
		cls := model.CmdClassifierTypeNotify
		var ref *uint64
		switch kind {
		case "reply":
			cls = model.CmdClassifierTypeReply
			if c, ok := p.lastReq["discovery"]; ok {
				ref = &c
			} else {
				ref = ptr(uint64(424242))
			}
		case "partial":
			cmd.Function = ptr(model.FunctionTypeNodeManagementDetailedDiscoveryData)
			cmd.Filter = []model.FilterType{*model.NewFilterTypePartial()}
		}
		injected = s.inject(p, cls, s.remoteAddr(p, "nm"), s.nmLocal(), ack, ref, cmd)
	case "sub", "bind", "unsub", "unbind":
		ca := s.remoteAddr(p, a.str("c"))
		sa := s.localAddr(a.str("s"))
		if a.str("dev") == "omit" {
			ca.Device = nil
		}
		if a.str("dev") == "other" {
			// the client address names the device of another peer (the first one that is not the sender)
			for _, pn := range s.topo.Peers {
				if pn != p.name {
					ca.Device = ptr(model.AddressDeviceType(s.peers[pn].devAddr))
					break
				}
			}
		}
		if a.str("sdev") == "omit" {
			sa.Device = nil
		}
		ft := model.FeatureTypeType(a.str("ft"))
		var cmd model.CmdType
		switch kind {
		case "sub":
			cmd.NodeManagementSubscriptionRequestCall = spine.NewNodeManagementSubscriptionRequestCallType(ca, sa, ft)
		case "bind":
			cmd.NodeManagementBindingRequestCall = spine.NewNodeManagementBindingRequestCallType(ca, sa, ft)
		case "unsub":
			cmd.NodeManagementSubscriptionDeleteCall = spine.NewNodeManagementSubscriptionDeleteCallType(ca, sa)
		case "unbind":
			cmd.NodeManagementBindingDeleteCall = spine.NewNodeManagementBindingDeleteCallType(ca, sa)
		}
		injected = s.inject(p, model.CmdClassifierTypeCall, s.remoteAddr(p, "nm"), s.nmLocal(), ack, nil, cmd)
	case "listsubs":
		injected = s.inject(p, model.CmdClassifierTypeCall, s.remoteAddr(p, "nm"), s.nmLocal(), ack, nil,
			model.CmdType{NodeManagementSubscriptionData: &model.NodeManagementSubscriptionDataType{}})
	case "listbinds":
		injected = s.inject(p, model.CmdClassifierTypeCall, s.remoteAddr(p, "nm"), s.nmLocal(), ack, nil,
			model.CmdType{NodeManagementBindingData: &model.NodeManagementBindingDataType{}})
	case "write":
		cmd := model.CmdType{}
		cmd.SetDataForFunction(fnMap[a.str("fn")], mkData(a.str("fn"), a.num("v")))
		switch a.str("fel") {
		case "same":
			cmd.Function = ptr(fnMap[a.str("fn")])
		case "other":
			cmd.Function = ptr(fnMap[a.str("ofn")])
		}
		src := s.remoteAddr(p, a.str("c"))
		if a.str("hdev") == "omit" {
			src.Device = nil // the device part of the source address is optional
		}
		injected = s.inject(p, model.CmdClassifierTypeWrite, src, s.localAddr(a.str("s")), ack, nil, cmd)
	case "read":
		cmd := model.CmdType{}
		cmd.SetDataForFunction(fnMap[a.str("fn")], emptyData(a.str("fn")))
		injected = s.inject(p, model.CmdClassifierTypeRead, s.remoteAddr(p, a.str("c")), s.localAddr(a.str("s")), ack, nil, cmd)
	case "recv":
		cmd := s.payloadCmd(a.str("pl"), a.num("v"), a.str("cls"))
		var ref *uint64
		if cls := a.str("cls"); cls == "reply" || cls == "result" {
			ref = ptr(uint64(424242)) // well-formed replies/results carry a reference (here: to no request of ours)
		}
		if h := a.num("ref"); h > 0 && h <= len(s.idCtr) {
			ref = ptr(s.idCtr[h-1])
		}
		s.curRecv = a
		dst := s.localAddr(a.str("s"))
		switch a.str("ddev") {
		case "omit":
			dst.Device = nil
		case "other":
			dst.Device = ptr(model.AddressDeviceType("d:elsewhere"))
		}
		injected = s.inject(p, model.CmdClassifierType(a.str("cls")), s.remoteAddr(p, a.str("c")), dst, ack, ref, cmd)
	case "adduc", "remuc", "setav", "remall":
		ent := s.lents[a.str("e")]
		actor, name := model.UseCaseActorType(a.str("actor")), model.UseCaseNameType(a.str("name"))
		switch kind {
		case "adduc":
			var sc []model.UseCaseScenarioSupportType
			for _, x := range strings.Split(a.str("sc"), ",") {
				if x == "" { // no scenario given
					continue
				}
				n, _ := strconv.Atoi(x)
				sc = append(sc, model.UseCaseScenarioSupportType(n))
			}
			ent.AddUseCaseSupport(actor, name, model.SpecificationVersionType(a.str("ver")), "release", a.boolean("av"), sc)
		case "remuc":
			ent.RemoveUseCaseSupport(actor, name)
		case "setav":
			ent.SetUseCaseAvailability(actor, name, a.boolean("av"))
		case "remall":
			ent.RemoveAllUseCaseSupports()
		}
	case "lreq":
		rd := s.dev.RemoteDeviceForSki(p.ski)
		var rf api.FeatureRemoteInterface
		if rd != nil {
			rf = rd.FeatureByAddress(s.remoteAddr(p, "s14"))
		}
		if rf == nil || isNilIface(rf) {
			line.Ret = "nofeature"
			break
		}
		ctr, err := s.lfeat[a.str("k")].RequestRemoteData(fnMap["limit"], nil, nil, rf)
		if err != nil || ctr == nil {
			line.Ret = "err"
			break
		}
		line.Ret = fmt.Sprintf("h%d", s.idOf(uint64(*ctr)))
	case "addcb":
		h := a.num("h")
		if h < 1 || h > len(s.idCtr) {
			panic("addcb: unknown id")
		}
		var err error
		if a.num("cb") == 1 {
			err = s.lfeat[a.str("k")].AddResponseCallback(model.MsgCounterType(s.idCtr[h-1]), s.respCb1(a.str("k")))
		} else {
			err = s.lfeat[a.str("k")].AddResponseCallback(model.MsgCounterType(s.idCtr[h-1]), s.respCb2(a.str("k")))
		}
		if err != nil {
			line.Ret = "err"
		}
	case "addrcb":
		if a.num("cb") == 1 {
			s.lfeat[a.str("k")].AddResultCallback(s.resCb1(a.str("k")))
		} else {
			s.lfeat[a.str("k")].AddResultCallback(s.resCb2(a.str("k")))
		}
	case "setdata":
		switch a.str("how") {
		case "upd":
			_ = s.lfeat[a.str("s")].UpdateData(fnMap[a.str("fn")], mkData(a.str("fn"), a.num("v")), nil, nil)
		case "updp":
			_ = s.lfeat[a.str("s")].UpdateData(fnMap[a.str("fn")], mkData(a.str("fn"), a.num("v")), model.NewFilterTypePartial(), nil)
		default:
			s.lfeat[a.str("s")].SetData(fnMap[a.str("fn")], mkData(a.str("fn"), a.num("v")))
		}
	case "lsub", "lbind", "lunsub", "lunbind":
		k := s.lfeat[a.str("k")]
		ra := s.remoteAddr(p, a.str("r"))
		var err *model.ErrorType
		switch kind {
		case "lsub":
			_, err = k.SubscribeToRemote(ra)
		case "lbind":
			_, err = k.BindToRemote(ra)
		case "lunsub":
			_, err = k.RemoveRemoteSubscription(ra)
		case "lunbind":
			_, err = k.RemoveRemoteBinding(ra)
		}
		if err != nil {
			line.Ret = "err"
		}
	default:
		panic("unknown action " + kind)
	}
	return
}

func emptyData(fn string) any {
	switch fn {
	case "limit":
		return &model.LoadControlLimitListDataType{}
	case "kv":
		return &model.DeviceConfigurationKeyValueListDataType{}
	case "ldesc":
		return &model.LoadControlLimitDescriptionListDataType{}
	case "kvdesc":
		return &model.DeviceConfigurationKeyValueDescriptionListDataType{}
	case "mfr":
		return &model.DeviceClassificationManufacturerDataType{}
	case "meas":
		return &model.MeasurementListDataType{}
	}
	panic("emptyData " + fn)
}

// ---------- projection through public getters ----------

// entDescVersion: the version the entity's description and type were announced in (0 = no description)
func entDescVersion(e api.EntityRemoteInterface) int {
	d := e.Description()
	if d == nil {
		return 0
	}
	name := entStr(e.Address().Entity)
	wantType := model.EntityTypeTypeEVSE
	if name == "0" {
		wantType = model.EntityTypeTypeDeviceInformation
	}
	if e.EntityType() != wantType {
		return -1
	}
	switch string(*d) {
	case "entity " + name + " v1":
		return 1
	case "entity " + name + " v2":
		return 2
	}
	return -1
}

// remoteUcVal: the version of the peer's use cases as DeviceRemote.UseCases reports them (0 = none, -1 = unexpected)
func remoteUcVal(rd api.DeviceRemoteInterface) (v int) {
	defer func() {
		if r := recover(); r != nil {
			v = -2
		}
	}()
	ucs := rd.UseCases()
	if len(ucs) == 0 {
		return 0
	}
	if len(ucs) != 1 || len(ucs[0].UseCaseSupport) != 1 || len(ucs[0].UseCaseSupport[0].ScenarioSupport) != 1 {
		return -1
	}
	return int(ucs[0].UseCaseSupport[0].ScenarioSupport[0])
}

func (s *System) project() *AbsState {
	st := &AbsState{Conn: []string{}, Known: map[string][]string{}, Feats: map[string][]FeatVer{}, Subs: []RegEntry{}, Binds: []RegEntry{}, SubIds: []uint64{}, BindIds: []uint64{},
		Nid: len(s.idCtr), CSub: []CEntry{}, CBind: []CEntry{}, Data: map[string]int{}, RData: map[string]int{}, RUcs: map[string]int{}, EDesc: map[string]map[string]int{}, Res: map[string]bool{}, ResA: map[string]bool{}}
	for _, pn := range s.topo.Peers {
		p := s.peers[pn]
		st.Known[pn] = []string{}
		st.Feats[pn] = []FeatVer{}
		rd := s.dev.RemoteDeviceForSki(p.ski)
		st.Res[pn] = rd != nil
		st.ResA[pn] = s.dev.RemoteDeviceForAddress(model.AddressDeviceType(p.devAddr)) != nil
		st.RData[pn] = 0
		st.RUcs[pn] = 0
		st.EDesc[pn] = map[string]int{}
		if rd != nil {
			st.RUcs[pn] = remoteUcVal(rd)
			if rf := rd.FeatureByAddress(s.remoteAddr(p, "s14")); rf != nil && !isNilIface(rf) {
				st.RData[pn] = dataVal(fnMap["limit"], rf.DataCopy(fnMap["limit"]))
			}
			st.Conn = append(st.Conn, pn)
			for _, e := range rd.Entities() {
				st.Known[pn] = append(st.Known[pn], entStr(e.Address().Entity))
				st.EDesc[pn][entStr(e.Address().Entity)] = entDescVersion(e)
				for _, f := range e.Features() {
					n := s.remoteName(p, f.Address())
					if n == "nm" || n == "nm@nodev" { // the node management feature exists from connection setup on
						continue
					}
					st.Feats[pn] = append(st.Feats[pn], FeatVer{F: n, V: s.featVersion(n, f)})
					// every announced feature address resolves back to that feature
					if rd.FeatureByAddress(f.Address()) != f {
						st.Feats[pn] = append(st.Feats[pn], FeatVer{F: n + "!unresolvable", V: 0})
					}
				}
			}
			sort.Strings(st.Known[pn])
			sort.Slice(st.Feats[pn], func(i, j int) bool { return st.Feats[pn][i].F < st.Feats[pn][j].F })
		}
	}
	st.AnnounceOk = s.announceOk()
	st.Ucs = []AbsUc{}
	st.UcSnapOk = true
	if d, ok := s.lfeat["NM"].DataCopy(model.FunctionTypeNodeManagementUseCaseData).(*model.NodeManagementUseCaseDataType); ok {
		st.Ucs = absUcs(d)
		// data handed out earlier never changes (C11): the use-case data sets read in the last steps are kept and compared
		for _, sn := range s.ucSnaps {
			if b, _ := json.Marshal(sn.obj); string(b) != sn.json {
				st.UcSnapOk = false
			}
		}
		if d != nil {
			b, _ := json.Marshal(d)
			s.ucSnaps = append(s.ucSnaps, ucSnap{d, string(b)})
			if len(s.ucSnaps) > 6 {
				s.ucSnaps = s.ucSnaps[1:]
			}
		}
	}
	st.HasUc = []UcKey{}
	for _, e := range []string{"1", "1.1", "2"} {
		if ent, ok := s.lents[e]; ok {
			for _, ac := range []string{"CEM", "EV"} {
				for _, n := range []string{"ucA", "ucB"} {
					if ent.HasUseCaseSupport(model.UseCaseActorType(ac), model.UseCaseNameType(n)) {
						st.HasUc = append(st.HasUc, UcKey{E: e, Actor: ac, Name: n})
					}
				}
			}
		}
	}
	// registries are read per local feature so that entries of vanished peers are still seen
	var lnames []string
	for n := range s.lfeat {
		lnames = append(lnames, n)
	}
	sort.Strings(lnames)
	peerOf := func(f api.FeatureRemoteInterface) *Peer {
		if f == nil || isNilIface(f) || f.Device() == nil {
			return nil
		}
		if pn, ok := s.skiTo[f.Device().Ski()]; ok {
			return s.peers[pn]
		}
		return nil
	}
	for _, n := range lnames {
		f := s.lfeat[n]
		for _, e := range s.dev.SubscriptionManager().SubscriptionsOnFeature(*f.Address()) {
			p := peerOf(e.ClientFeature)
			pn := "?"
			if p != nil {
				pn = p.name
			}
			st.Subs = append(st.Subs, RegEntry{P: pn, C: s.remoteName(p, e.ClientFeature.Address()), S: s.localName(e.ServerFeature.Address())})
			st.SubIds = append(st.SubIds, e.Id)
		}
		for _, e := range s.dev.BindingManager().BindingsOnFeature(*f.Address()) {
			p := peerOf(e.ClientFeature)
			pn := "?"
			if p != nil {
				pn = p.name
			}
			st.Binds = append(st.Binds, RegEntry{P: pn, C: s.remoteName(p, e.ClientFeature.Address()), S: s.localName(e.ServerFeature.Address())})
			st.BindIds = append(st.BindIds, e.Id)
		}
		var rnames []string
		for rn := range s.topo.RF {
			rnames = append(rnames, rn)
		}
		sort.Strings(rnames)
		for _, pn := range s.topo.Peers {
			for _, rn := range rnames {
				ra := s.remoteAddr(s.peers[pn], rn)
				if f.HasSubscriptionToRemote(ra) {
					st.CSub = append(st.CSub, CEntry{K: n, P: pn, R: rn})
				}
				if f.HasBindingToRemote(ra) {
					st.CBind = append(st.CBind, CEntry{K: n, P: pn, R: rn})
				}
			}
		}
		for fn := range s.topo.LFn[n] {
			cell := n + "." + fn
			if cell == "S1.limit" || cell == "S2.limit" || cell == "S3.kv" || cell == "S4.limit" {
				st.Data[cell] = dataVal(fnMap[fn], f.DataCopy(fnMap[fn]))
			}
		}
	}
	return st
}

// payloadCmd builds the command for an abstract payload kind of the recv action
func (s *System) payloadCmd(pl string, v int, cls string) model.CmdType {
	cmd := model.CmdType{}
	switch pl {
	case "res0":
		cmd.ResultData = &model.ResultDataType{ErrorNumber: ptr(model.ErrorNumberType(0))}
	case "res1":
		cmd.ResultData = &model.ResultDataType{ErrorNumber: ptr(model.ErrorNumberType(1)), Description: ptr(model.DescriptionType("error"))}
	case "resbad":
		cmd.ResultData = &model.ResultDataType{Description: ptr(model.DescriptionType("no number"))}
	case "usecase":
		cmd.NodeManagementUseCaseData = &model.NodeManagementUseCaseDataType{}
		if cls != "read" {
			// the peer's use cases in "version" v: one actor, one use case, scenario v
			cmd.NodeManagementUseCaseData.UseCaseInformation = []model.UseCaseInformationDataType{{Actor: ptr(model.UseCaseActorTypeCEM),
				UseCaseSupport: []model.UseCaseSupportType{{UseCaseName: ptr(model.UseCaseNameType("ucR")), ScenarioSupport: []model.UseCaseScenarioSupportType{model.UseCaseScenarioSupportType(v)}}}}}
		}
	case "subdata":
		cmd.NodeManagementSubscriptionData = &model.NodeManagementSubscriptionDataType{}
	case "binddata":
		cmd.NodeManagementBindingData = &model.NodeManagementBindingDataType{}
	case "destlist":
		cmd.NodeManagementDestinationListData = &model.NodeManagementDestinationListDataType{}
	case "discovery":
		cmd.NodeManagementDetailedDiscoveryData = &model.NodeManagementDetailedDiscoveryDataType{}
	case "limitp":
		// the limit data with a partial filter (one identified item: merged into the cache)
		cmd.SetDataForFunction(fnMap["limit"], mkData("limit", v))
		cmd.Function = ptr(fnMap["limit"])
		cmd.Filter = []model.FilterType{*model.NewFilterTypePartial()}
	default:
		if cls == "read" {
			cmd.SetDataForFunction(fnMap[pl], emptyData(pl))
		} else {
			cmd.SetDataForFunction(fnMap[pl], mkData(pl, v))
		}
	}
	return cmd
}

// topFrames: the spine-go function frames of a panic stack (innermost first), without line numbers
func topFrames(stack []byte) string {
	var fr []string
	for _, l := range strings.Split(string(stack), "\n") {
		if strings.HasPrefix(l, "github.com/enbility/spine-go/") {
			f := strings.TrimPrefix(l, "github.com/enbility/spine-go/")
			if i := strings.LastIndex(f, "("); i > 0 {
				f = f[:i]
			}
			fr = append(fr, f)
			if len(fr) == 3 {
				break
			}
		}
	}
	return strings.Join(fr, " < ")
}

// ---------- requests and callbacks (C14) ----------

func (s *System) idOf(ctr uint64) int {
	for i, c := range s.idCtr {
		if c == ctr {
			return i + 1
		}
	}
	s.idCtr = append(s.idCtr, ctr)
	return len(s.idCtr)
}

func (s *System) fired(k string, cb int, kind string, msg api.ResponseMessage) {
	h := 0
	for i, c := range s.idCtr {
		if c == uint64(msg.MsgCounterReference) {
			h = i + 1
		}
	}
	good := false
	a := s.curRecv
	if a != nil {
		p := s.peers[a.str("p")]
		good = msg.FeatureRemote != nil && !isNilIface(msg.FeatureRemote) && s.remoteName(p, msg.FeatureRemote.Address()) == a.str("c") &&
			msg.FeatureLocal != nil && !isNilIface(msg.FeatureLocal) && s.localName(msg.FeatureLocal.Address()) == k
		switch d := msg.Data.(type) {
		case *model.ResultDataType:
			want := map[string]int{"res0": 0, "res1": 1}[a.str("pl")]
			good = good && a.str("cls") == "result" && d != nil && d.ErrorNumber != nil && int(*d.ErrorNumber) == want
		default:
			good = good && a.str("cls") == "reply" && dataValAny(msg.Data) == a.num("v")
		}
	}
	s.cbMu.Lock()
	s.cbLog = append(s.cbLog, CbFire{K: k, Cb: cb, Kind: kind, H: h, Good: good})
	s.cbMu.Unlock()
}

func dataValAny(d any) int { return dataVal("", d) }

// response callbacks: distinct function literals (the stack compares code pointers to refuse "the same callback")
func (s *System) respCb1(k string) func(api.ResponseMessage) {
	return func(m api.ResponseMessage) { s.fired(k, 1, "resp", m) }
}
func (s *System) respCb2(k string) func(api.ResponseMessage) {
	return func(m api.ResponseMessage) { s.fired(k, 2, "resp", m) }
}

// (result callbacks are not compared by the stack: they are closures of one literal, i.e. distinct callbacks that share their code)
//
//go:noinline
func (s *System) resCb(k string, cb int) func(api.ResponseMessage) {
	return func(m api.ResponseMessage) {
		// a result callback calls back into its feature (it registers a response callback for a counter nobody will ever
		// reference, as an application preparing a follow-up request would): this must not block it or the callbacks after it
		if f, ok := s.lfeat[k]; ok {
			_ = f.AddResponseCallback(model.MsgCounterType(4000000+cb), func(api.ResponseMessage) {})
		}
		s.fired(k, cb, "res", m)
	}
}
func (s *System) resCb1(k string) func(api.ResponseMessage) { return s.resCb(k, 1) }
func (s *System) resCb2(k string) func(api.ResponseMessage) { return s.resCb(k, 2) }

func (s *System) drainCbf() []CbFire {
	s.cbMu.Lock()
	defer s.cbMu.Unlock()
	r := s.cbLog
	s.cbLog = nil
	if r == nil {
		r = []CbFire{}
	}
	sort.Slice(r, func(i, j int) bool {
		return fmt.Sprint(r[i]) < fmt.Sprint(r[j])
	})
	return r
}

// quiesce waits until every goroutine the stack spawned for callbacks / application handlers has finished:
// the goroutine count is back at the baseline for two consecutive polls (no fixed sleeps)
func (s *System) quiesce() bool {
	if runtime.NumGoroutine() <= s.baseG {
		return true
	}
	deadline := time.Now().Add(20 * time.Second)
	ok := 0
	for time.Now().Before(deadline) {
		if runtime.NumGoroutine() <= s.baseG {
			ok++
			if ok >= 2 {
				return true
			}
		} else {
			ok = 0
		}
		runtime.Gosched()
		time.Sleep(50 * time.Microsecond)
	}
	return false
}

// ---- helpers for concurrent drivers (C17): the peer's counter and reader are shared between goroutines ----

func (s *System) injectConc(p *Peer, cls model.CmdClassifierType, src, dst *model.FeatureAddressType, ack bool, ref *uint64, cmd model.CmdType) {
	s.connMu.RLock()
	reader := p.reader
	s.connMu.RUnlock()
	s.ctrMu.Lock()
	p.ctr++
	ctr := model.MsgCounterType(p.ctr)
	s.ctrMu.Unlock()
	h := model.HeaderType{SpecificationVersion: &spine.SpecificationVersion, AddressSource: src, AddressDestination: dst, MsgCounter: &ctr, CmdClassifier: &cls}
	if ack {
		h.AckRequest = &ack
	}
	if ref != nil {
		r := model.MsgCounterType(*ref)
		h.MsgCounterReference = &r
	}
	b, err := json.Marshal(model.Datagram{Datagram: model.DatagramType{Header: h, Payload: model.PayloadType{Cmd: []model.CmdType{cmd}}}})
	if err != nil {
		panic(err)
	}
	if reader != nil {
		reader.HandleShipPayloadMessage(b)
	}
}

// execConc: the inbound actions of exec, built without touching shared harness state
func (s *System) execConc(a Action, p *Peer) {
	kind := a.str("a")
	ack := a.boolean("ack")
	nm := s.remoteAddr(p, "nm")
	switch kind {
	case "discover":
		d := s.discoveryData(p, append([]string{"0"}, a.strs("ents")...), nil, true, true)
		s.injectConc(p, model.CmdClassifierTypeReply, nm, s.nmLocal(), ack, ptr(uint64(424242)), model.CmdType{NodeManagementDetailedDiscoveryData: d})
	case "entrem", "entadd":
		st := model.NetworkManagementStateChangeTypeRemoved
		if kind == "entadd" {
			st = model.NetworkManagementStateChangeTypeAdded
		}
		d := s.discoveryData(p, []string{a.str("e")}, &st, kind == "entadd", true)
		s.injectConc(p, model.CmdClassifierTypeNotify, nm, s.nmLocal(), ack, nil, model.CmdType{Function: ptr(model.FunctionTypeNodeManagementDetailedDiscoveryData),
			Filter: []model.FilterType{*model.NewFilterTypePartial()}, NodeManagementDetailedDiscoveryData: d})
	case "sub", "bind", "unsub", "unbind":
		ca, sa := s.remoteAddr(p, a.str("c")), s.localAddr(a.str("s"))
		ft := model.FeatureTypeType(a.str("ft"))
		var cmd model.CmdType
		switch kind {
		case "sub":
			cmd.NodeManagementSubscriptionRequestCall = spine.NewNodeManagementSubscriptionRequestCallType(ca, sa, ft)
		case "bind":
			cmd.NodeManagementBindingRequestCall = spine.NewNodeManagementBindingRequestCallType(ca, sa, ft)
		case "unsub":
			cmd.NodeManagementSubscriptionDeleteCall = spine.NewNodeManagementSubscriptionDeleteCallType(ca, sa)
		case "unbind":
			cmd.NodeManagementBindingDeleteCall = spine.NewNodeManagementBindingDeleteCallType(ca, sa)
		}
		s.injectConc(p, model.CmdClassifierTypeCall, nm, s.nmLocal(), ack, nil, cmd)
	case "listbinds":
		s.injectConc(p, model.CmdClassifierTypeCall, nm, s.nmLocal(), ack, nil, model.CmdType{NodeManagementBindingData: &model.NodeManagementBindingDataType{}})
	case "write":
		cmd := model.CmdType{}
		cmd.SetDataForFunction(fnMap[a.str("fn")], mkData(a.str("fn"), a.num("v")))
		s.injectConc(p, model.CmdClassifierTypeWrite, s.remoteAddr(p, a.str("c")), s.localAddr(a.str("s")), ack, nil, cmd)
	case "recv":
		cmd := s.payloadCmd(a.str("pl"), a.num("v"), a.str("cls"))
		s.injectConc(p, model.CmdClassifierType(a.str("cls")), s.remoteAddr(p, a.str("c")), s.localAddr(a.str("s")), ack, ptr(uint64(424242)), cmd)
	default:
		panic("execConc " + kind)
	}
}
