package main

// Driver for spec/EventBus.tla (C15): histories of subscribe / unsubscribe / publish on the real (process-global) event bus
// with handlers at both levels whose bodies subscribe, unsubscribe or publish; and a free-running concurrent part.

import (
	"bufio"
	"encoding/json"
	"flag"
	"fmt"
	"math/rand"
	"os"
	"runtime"
	"sync"
	"sync/atomic"
	"time"

	"github.com/enbility/spine-go/api"
	"github.com/enbility/spine-go/spine"
)

type evBody struct {
	Kind string // none | unsubself | unsub | sub | publish
	Arg  string
}
type evDel struct {
	Ev string `json:"ev"`
	H  string `json:"h"`
}
type EvLine struct {
	Op              string  `json:"op"`
	H               string  `json:"h"`
	Ev              string  `json:"ev"`
	Del             []evDel `json:"del"`
	CoreAfterReturn bool    `json:"coreafterreturn"`
	AppBeforeCore   bool    `json:"appbeforecore"`
	Blocked         bool    `json:"blocked"`
}

type evBus struct {
	mu       sync.Mutex
	handlers map[string]*evHandler
	seq      int64
	log      []evRec
	subd     map[string]bool            // handlers the harness has subscribed (all calls go through sub / unsub)
	atPub    map[string]map[string]bool // top-level event -> the handlers subscribed when it was published
	started  map[string]bool            // event/handler -> the handler has been entered for the event
	starved  bool                       // a handler waited in vain for another handler of the same event
	pubG     map[uint64]bool            // goroutines that are inside Publish (deliveries made on them are core-level ones)
}
type evRec struct {
	ev, h, level string
	start, end   int64
}
type evHandler struct {
	bus  *evBus
	name string
	body evBody
	// twin: the same object is also registered at the application level under this name (a core-level delivery runs on
	// the publishing goroutine, an application-level one on a goroutine of its own: that tells them apart)
	twin     string
	twinBody evBody
}

func evLevel(h string) string {
	if h[0] == 'c' {
		return "core"
	}
	return "app"
}

func (b *evBus) publish(p api.EventPayload) {
	g := curGid()
	b.mu.Lock()
	b.pubG[g] = true
	b.mu.Unlock()
	spine.Events.Publish(p)
	b.mu.Lock()
	delete(b.pubG, g)
	b.mu.Unlock()
}

func (b *evBus) sub(h string) {
	b.mu.Lock()
	b.subd[h] = true
	b.mu.Unlock()
	if evLevel(h) == "core" {
		spine.VerifSubscribeCore(b.handlers[h])
	} else {
		_ = spine.Events.Subscribe(b.handlers[h])
	}
}
func (b *evBus) unsub(h string) {
	b.mu.Lock()
	delete(b.subd, h)
	b.mu.Unlock()
	if evLevel(h) == "core" {
		spine.VerifUnsubscribeCore(b.handlers[h])
	} else {
		_ = spine.Events.Unsubscribe(b.handlers[h])
	}
}

func (h *evHandler) HandleEvent(p api.EventPayload) {
	b := h.bus
	if h.twin != "" {
		b.mu.Lock()
		onPub := b.pubG[curGid()]
		b.mu.Unlock()
		if !onPub {
			h = &evHandler{bus: b, name: h.twin, body: h.twinBody}
		}
	}
	rec := evRec{ev: p.Ski, h: h.name, level: evLevel(h.name), start: atomic.AddInt64(&b.seq, 1)}
	b.mu.Lock()
	b.started[p.Ski+"/"+h.name] = true
	b.mu.Unlock()
	if rec.level == "core" {
		// give application handlers that were (wrongly) started already a chance to run before this one ends
		for i := 0; i < 200; i++ {
			runtime.Gosched()
		}
		time.Sleep(200 * time.Microsecond)
	}
	// the body acts on top-level events only
	if len(p.Ski) > 0 && p.Ski[len(p.Ski)-1] != 'n' {
		switch h.body.Kind {
		case "unsubself":
			b.unsub(h.name)
		case "resub":
			b.unsub(h.name)
			b.sub(h.name)
		case "unsub":
			b.unsub(h.body.Arg)
		case "sub":
			b.sub(h.body.Arg)
		case "waitfor":
			// an application handler that does not return before another application handler of the same event has
			// been entered (handlers of one event are independent of each other: each gets the event, whatever the
			// others do meanwhile); only if that handler was subscribed when the event was published
			b.mu.Lock()
			due := b.atPub[p.Ski][h.body.Arg]
			b.mu.Unlock()
			if due {
				deadline := time.Now().Add(3 * time.Second)
				for {
					b.mu.Lock()
					ok := b.started[p.Ski+"/"+h.body.Arg]
					b.mu.Unlock()
					if ok {
						break
					}
					if time.Now().After(deadline) {
						b.mu.Lock()
						b.starved = true
						b.mu.Unlock()
						break
					}
					time.Sleep(50 * time.Microsecond)
				}
			}
		case "publish":
			if rec.level == "app" { // a core handler that publishes would block on the bus itself; not required by the property
				b.publish(api.EventPayload{Ski: p.Ski + "n"})
			}
		}
	}
	rec.end = atomic.AddInt64(&b.seq, 1)
	b.mu.Lock()
	b.log = append(b.log, rec)
	b.mu.Unlock()
}

func evQuiesce(base int) bool {
	deadline := time.Now().Add(3 * time.Second)
	ok := 0
	for time.Now().Before(deadline) {
		if runtime.NumGoroutine() <= base {
			ok++
			if ok >= 2 {
				return true
			}
		} else {
			ok = 0
		}
		time.Sleep(50 * time.Microsecond)
	}
	return false
}

func eventsReplay(args []string) {
	fs := flag.NewFlagSet("events-replay", flag.ExitOnError)
	inF := fs.String("in", "", "")
	outF := fs.String("out", "", "")
	bodiesF := fs.String("bodies", "{}", "json: handler -> [kind, arg]")
	must(fs.Parse(args))
	var bodies map[string][]string
	must(json.Unmarshal([]byte(*bodiesF), &bodies))
	in, err := os.Open(*inF)
	must(err)
	defer in.Close()
	out, err := os.Create(*outF)
	must(err)
	defer out.Close()
	w := bufio.NewWriterSize(out, 1<<20)
	defer w.Flush()
	enc := json.NewEncoder(w)
	sc := bufio.NewScanner(in)
	sc.Buffer(make([]byte, 1<<20), 1<<26)
	nb, ns := 0, 0
	base := runtime.NumGoroutine()
	for sc.Scan() {
		var beh []Action
		must(json.Unmarshal(sc.Bytes(), &beh))
		must(enc.Encode(map[string]string{"op": "reset"}))
		bus := &evBus{handlers: map[string]*evHandler{}, subd: map[string]bool{}, atPub: map[string]map[string]bool{}, started: map[string]bool{}, pubG: map[uint64]bool{}}
		for _, h := range []string{"c1", "c2", "c3", "a1", "a2", "a3"} {
			eh := &evHandler{bus: bus, name: h, body: evBody{Kind: "none"}}
			if b, ok := bodies[h]; ok && len(b) > 0 {
				eh.body.Kind = b[0]
				if len(b) > 1 {
					eh.body.Arg = b[1]
				}
			}
			bus.handlers[h] = eh
		}
		if tw, ok := bodies["_twins"]; ok && len(tw) == 2 {
			// one object registered at both levels: tw[0] at the core level, tw[1] at the application level
			core, app := bus.handlers[tw[0]], bus.handlers[tw[1]]
			core.twin, core.twinBody = tw[1], app.body
			bus.handlers[tw[1]] = core
		}
		for _, a := range beh {
			line := EvLine{Op: a.str("op"), H: a.str("h"), Ev: a.str("ev"), Del: []evDel{}}
			done := make(chan int64, 1)
			go func() {
				switch line.Op {
				case "sub":
					bus.sub(line.H)
				case "unsub":
					bus.unsub(line.H)
				case "publish":
					bus.mu.Lock()
					snap := map[string]bool{}
					for k := range bus.subd {
						snap[k] = true
					}
					bus.atPub[line.Ev] = snap
					bus.mu.Unlock()
					bus.publish(api.EventPayload{Ski: line.Ev})
				}
				done <- atomic.AddInt64(&bus.seq, 1)
			}()
			var returned int64
			select {
			case returned = <-done:
			case <-time.After(3 * time.Second):
				line.Blocked = true
			}
			if !evQuiesce(base) {
				// (a handler that waits for another one may take its full 3 s)
				if !evQuiesce(base) {
					line.Blocked = true
				}
			}
			bus.mu.Lock()
			recs := bus.log
			bus.log = nil
			if bus.starved {
				line.Blocked = true
				bus.starved = false
			}
			bus.mu.Unlock()
			// order flags per event
			coreEnd := map[string]int64{}
			for _, r := range recs {
				if r.level == "core" && r.end > coreEnd[r.ev] {
					coreEnd[r.ev] = r.end
				}
			}
			for _, r := range recs {
				line.Del = append(line.Del, evDel{Ev: r.ev, H: r.h})
				if r.level == "core" && r.ev == line.Ev && returned != 0 && r.end > returned {
					line.CoreAfterReturn = true
				}
				if r.level == "app" && r.start < coreEnd[r.ev] {
					line.AppBeforeCore = true
				}
			}
			must(enc.Encode(line))
			ns++
			if line.Blocked {
				// an operation on the bus did not return or its handlers never finished: the bus is process-global, nothing
				// after this in this process can be trusted (and every further operation would run into its watchdog)
				w.Flush()
				fmt.Printf("{\"behaviours\": %d, \"steps\": %d, \"hung\": true}\n", nb+1, ns)
				os.Exit(0)
			}
		}
		for h := range bus.handlers {
			bus.unsub(h)
		}
		nb++
	}
	fmt.Printf("{\"behaviours\": %d, \"steps\": %d}\n", nb, ns)
}

// ---- free-running: publication, subscription and unsubscription from several goroutines at once ----

type EvConcLine struct {
	Calls []EvCall `json:"calls"`
	Dels  []evDel  `json:"dels"`
	Hung  bool     `json:"hung"`
}
type EvCall struct {
	Op    string `json:"op"`
	H     string `json:"h"`
	Ev    string `json:"ev"`
	Start int64  `json:"start"`
	End   int64  `json:"end"`
}

func eventsStress(args []string) {
	fs := flag.NewFlagSet("events-stress", flag.ExitOnError)
	seed := fs.Int64("seed", 1, "")
	rounds := fs.Int("rounds", 20, "")
	outF := fs.String("out", "", "")
	must(fs.Parse(args))
	out, err := os.Create(*outF)
	must(err)
	defer out.Close()
	enc := json.NewEncoder(out)
	base := runtime.NumGoroutine()
	for r := 0; r < *rounds; r++ {
		bus := &evBus{handlers: map[string]*evHandler{}, subd: map[string]bool{}, atPub: map[string]map[string]bool{}, started: map[string]bool{}, pubG: map[uint64]bool{}}
		names := []string{"c1", "c2", "a1", "a2", "a3"}
		for _, h := range names {
			bus.handlers[h] = &evHandler{bus: bus, name: h, body: evBody{Kind: "none"}}
		}
		var mu sync.Mutex
		var calls []EvCall
		var wg sync.WaitGroup
		for g := 0; g < 6; g++ {
			wg.Add(1)
			go func(g int) {
				defer wg.Done()
				rnd := rand.New(rand.NewSource(*seed*7919 + int64(r*100+g)))
				for i := 0; i < 25; i++ {
					c := EvCall{}
					if g < 3 {
						c.Op, c.Ev = "publish", fmt.Sprintf("r%dg%di%d", r, g, i)
					} else {
						c.H = names[rnd.Intn(len(names))]
						if rnd.Intn(2) == 0 {
							c.Op = "sub"
						} else {
							c.Op = "unsub"
						}
					}
					c.Start = atomic.AddInt64(&bus.seq, 1)
					switch c.Op {
					case "publish":
						spine.Events.Publish(api.EventPayload{Ski: c.Ev})
					case "sub":
						bus.sub(c.H)
					case "unsub":
						bus.unsub(c.H)
					}
					c.End = atomic.AddInt64(&bus.seq, 1)
					mu.Lock()
					calls = append(calls, c)
					mu.Unlock()
				}
			}(g)
		}
		doneC := make(chan struct{})
		go func() { wg.Wait(); close(doneC) }()
		line := EvConcLine{Dels: []evDel{}, Calls: []EvCall{}}
		select {
		case <-doneC:
		case <-time.After(20 * time.Second):
			line.Hung = true
		}
		evQuiesce(base)
		for _, h := range names {
			bus.unsub(h)
		}
		bus.mu.Lock()
		for _, rc := range bus.log {
			line.Dels = append(line.Dels, evDel{Ev: rc.ev, H: rc.h})
		}
		bus.mu.Unlock()
		line.Calls = calls
		must(enc.Encode(line))
		if line.Hung {
			return
		}
	}
	// re-entrant rounds: handlers of both levels (un)subscribe from inside while several goroutines publish; the
	// deliveries depend on the interleaving - required is that nothing blocks
	for r := 0; r < (*rounds+1)/2; r++ {
		bus := &evBus{handlers: map[string]*evHandler{}, subd: map[string]bool{}, atPub: map[string]map[string]bool{}, started: map[string]bool{}, pubG: map[uint64]bool{}}
		bodies := map[string]evBody{"c1": {Kind: "resub"}, "c2": {Kind: "unsub", Arg: "a3"}, "a1": {Kind: "resub"}, "a2": {Kind: "publish"}, "a3": {Kind: "sub", Arg: "a3"}}
		for h, b := range bodies {
			bus.handlers[h] = &evHandler{bus: bus, name: h, body: b}
			bus.sub(h)
		}
		var wg sync.WaitGroup
		for g := 0; g < 4; g++ {
			wg.Add(1)
			go func(g int) {
				defer wg.Done()
				for i := 0; i < 30; i++ {
					spine.Events.Publish(api.EventPayload{Ski: fmt.Sprintf("x%dg%di%d", r, g, i)})
					if i%5 == g {
						bus.sub("a3")
					}
				}
			}(g)
		}
		doneC := make(chan struct{})
		go func() { wg.Wait(); close(doneC) }()
		line := EvConcLine{Dels: []evDel{}, Calls: []EvCall{}}
		select {
		case <-doneC:
		case <-time.After(20 * time.Second):
			line.Hung = true
		}
		if !line.Hung {
			evQuiesce(base)
			unsubDone := make(chan struct{})
			go func() {
				for h := range bodies {
					bus.unsub(h)
				}
				close(unsubDone)
			}()
			select {
			case <-unsubDone:
			case <-time.After(5 * time.Second):
				line.Hung = true
			}
		}
		must(enc.Encode(line))
		if line.Hung {
			return
		}
	}
}
