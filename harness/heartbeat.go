package main

// Forced schedules of heartbeat start / stop (spec/Heartbeat.tla) and sequential heartbeat histories (C16).

import (
	"bufio"
	"encoding/json"
	"flag"
	"fmt"
	"os"
	"runtime"
	"sort"
	"strings"
	"sync"
	"time"

	"github.com/enbility/spine-go/model"
	"github.com/enbility/spine-go/spine"
)

type HbCfg struct {
	Kind    map[string]string `json:"kind"`
	Init    bool              `json:"init"`
	Sched   []string          `json:"sched"`
	Unsafe  bool              `json:"unsafe"`
	Seq     []string          `json:"seq"`     // sequential history mode: start | stop | rement | addent, one observation window per operation
	Periods []int             `json:"periods"` // period mode: heartbeat timeouts in milliseconds
	Slow    bool              `json:"slow"`    // slow-subscriber mode
}

// the timestamp of a heartbeat notification (nil if msg is none)
func hbTimestamp(msg []byte) *time.Time {
	var dg model.Datagram
	if json.Unmarshal(msg, &dg) != nil || len(dg.Datagram.Payload.Cmd) != 1 {
		return nil
	}
	d := dg.Datagram.Payload.Cmd[0].DeviceDiagnosisHeartbeatData
	if d == nil || d.Timestamp == nil {
		return nil
	}
	t, err := d.Timestamp.GetTime()
	if err != nil {
		return nil
	}
	return &t
}

// a slow subscriber: its connection blocks for 2.5 s on the third heartbeat notification; every refresh after that
// still carries a current timestamp (age = time of the write - timestamp, which is rounded to seconds)
func runHbSlow(topo *Topo) HbLine {
	line := HbLine{Mode: "slow", PeriodOk: true, Ops: []HbOp{}, Sched: []string{}, Kind: map[string]string{}, Pre: []string{}, Realised: true, CtrOk: true, Notified: true}
	s, p, _, ent, subOK := hbSetup(topo, hbPeriod)
	defer spine.VerifSetHook(nil)
	defer s.Close()
	var mu sync.Mutex
	n, after, maxAge := 0, 0, time.Duration(0)
	stalled := false
	p.w.onWrite = func(msg []byte) {
		ts := hbTimestamp(msg)
		if ts == nil {
			return
		}
		age := time.Since(*ts)
		mu.Lock()
		n++
		k := n
		if stalled {
			after++
			if age > maxAge {
				maxAge = age
			}
		}
		mu.Unlock()
		if k == 3 {
			time.Sleep(2500 * time.Millisecond)
			mu.Lock()
			stalled = true
			mu.Unlock()
		}
	}
	_ = ent.HeartbeatManager().StartHeartbeat()
	time.Sleep(2500*time.Millisecond + 8*hbPeriod)
	ent.HeartbeatManager().StopHeartbeat()
	mu.Lock()
	line.MaxAgeMs, line.After = int(maxAge/time.Millisecond), after
	mu.Unlock()
	if !subOK {
		line.Panic = "the subscription of the heartbeat subscriber was not granted"
	}
	return line
}

type HbOp struct {
	P     string `json:"p"`
	Kind  string `json:"kind"`
	First int    `json:"first"`
	Last  int    `json:"last"`
}
type HbLine struct {
	Kind     map[string]string `json:"kind"`
	Init     bool              `json:"init"`
	Sched    []string          `json:"sched"`
	Ops      []HbOp            `json:"ops"`
	Unsafe   bool              `json:"unsafe"`
	Realised bool              `json:"realised"`
	Panic    string            `json:"panic"`
	Live     int               `json:"live"`     // distinct streams refreshing the data after the schedule
	Running  bool              `json:"running"`  // IsHeartbeatRunning afterwards
	Rate     int               `json:"rate"`     // refreshes observed in the window
	Window   int               `json:"window"`   // periods in the window
	CtrOk    bool              `json:"ctrok"`    // counters of the refreshes strictly increasing
	Notified bool              `json:"notified"` // every refresh in the window was notified to the subscriber, and nothing else
	PeriodOk bool              `json:"periodok"` // 0 < ticker period <= announced timeout for every stream started
	MaxAgeMs int               `json:"maxagems"` // mode slow: largest age of a timestamp notified after the stall
	After    int               `json:"after"`    // mode slow: refreshes notified after the stall
	Mode     string            `json:"mode"`     // sched | seq | periods
	Op       string            `json:"op"`       // seq mode: the operation just executed
	Pre      []string          `json:"pre"`      // seq mode: the operations before it
}

const hbPeriod = 100 * time.Millisecond

type hbObs struct {
	mu    sync.Mutex
	ticks []struct {
		ch  string
		ctr uint64
	}
	periods []time.Duration
	mine    map[string]bool // channels of the streams started in this run (orphans of earlier runs of this process keep ticking)
	maxCtr  uint64          // largest counter seen in earlier observation windows of this run (the counter never goes back)
}

func hbReplay(args []string) {
	fs := flag.NewFlagSet("hb-replay", flag.ExitOnError)
	topoF := fs.String("topo", "", "")
	inF := fs.String("in", "", "")
	outF := fs.String("out", "", "")
	must(fs.Parse(args))
	tb, err := os.ReadFile(*topoF)
	must(err)
	topo, err := parseTopo(tb)
	must(err)
	in, err := os.Open(*inF)
	must(err)
	defer in.Close()
	out, err := os.Create(*outF)
	must(err)
	defer out.Close()
	enc := json.NewEncoder(out)
	sc := bufio.NewScanner(in)
	sc.Buffer(make([]byte, 1<<20), 1<<26)
	n := 0
	for sc.Scan() {
		var c HbCfg
		must(json.Unmarshal(sc.Bytes(), &c))
		switch {
		case c.Slow:
			must(enc.Encode(runHbSlow(topo)))
		case len(c.Periods) > 0:
			must(enc.Encode(runHbPeriods(topo, c)))
		case len(c.Seq) > 0:
			for _, l := range runHbSeq(topo, c) {
				must(enc.Encode(l))
			}
		default:
			must(enc.Encode(runHb(topo, c)))
		}
		n++
	}
	fmt.Printf("{\"schedules\": %d}\n", n)
}

func runHb(topo *Topo, c HbCfg) HbLine {
	line := HbLine{Kind: c.Kind, Init: c.Init, Sched: c.Sched, Unsafe: c.Unsafe, Realised: true, Ops: []HbOp{}, Mode: "sched", Pre: []string{}}
	s := NewSystem(topo)
	defer s.Close()
	p := s.peers["p1"]
	s.step(Action{"a": "connect", "p": "p1"})
	s.step(Action{"a": "discover", "p": "p1", "ents": []any{"1", "2"}, "ack": false})
	obs := &hbObs{mine: map[string]bool{}}
	sched := NewSched()
	sched.watchdog = 60 * time.Millisecond
	defer sched.Close()
	inner := sched.hook
	spine.VerifSetHook(func(point string, args ...any) {
		switch point {
		case "Heartbeat.tick":
			obs.mu.Lock()
			if obs.mine[fmt.Sprint(args[0])] {
				obs.ticks = append(obs.ticks, struct {
					ch  string
					ctr uint64
				}{fmt.Sprint(args[0]), args[1].(uint64)})
			}
			obs.mu.Unlock()
		case "Heartbeat.period":
			obs.mu.Lock()
			obs.mine[fmt.Sprint(args[0])] = true
			obs.periods = append(obs.periods, args[1].(time.Duration))
			obs.mu.Unlock()
			if args[1].(time.Duration) <= 0 {
				// time.NewTicker would panic in a goroutine of the stack and take the process down: the period is
				// recorded (and reported), this stream ends here
				runtime.Goexit()
			}
		}
		inner(point, args...)
	})
	// an entity with a device diagnosis server feature announcing the heartbeat function: that starts the heartbeat
	ent := spine.NewEntityLocal(s.dev, model.EntityTypeTypeCEM, entAddr("5"), hbPeriod)
	f := ent.GetOrAddFeature(model.FeatureTypeTypeDeviceDiagnosis, model.RoleTypeServer)
	s.dev.AddEntity(ent)
	f.AddFunctionType(model.FunctionTypeDeviceDiagnosisHeartbeatData, true, false)
	hm := ent.HeartbeatManager()
	// the peer subscribes to the device diagnosis feature (c11 stands in as client; the type check wants DeviceDiagnosis,
	// so the subscription is placed directly through the manager's request path with a generic client)
	subOK := false
	{
		ca := s.remoteAddr(p, "c11")
		req := model.SubscriptionManagementRequestCallType{ClientAddress: ca, ServerAddress: f.Address(), ServerFeatureType: ptr(model.FeatureTypeTypeLoadControl)}
		_ = req
		// c11 is a LoadControl client: use a feature of generic type instead -> announce one
		st := model.NetworkManagementStateChangeTypeAdded
		d := s.discoveryItems(p, []annItem{{E: "2", Fs: []string{"c21"}, V: 1, State: &st}}, true)
		for i := range d.FeatureInformation {
			d.FeatureInformation[i].Description.FeatureType = ptr(model.FeatureTypeTypeGeneric)
		}
		s.inject(p, model.CmdClassifierTypeNotify, s.remoteAddr(p, "nm"), s.nmLocal(), false, nil,
			model.CmdType{Function: ptr(model.FunctionTypeNodeManagementDetailedDiscoveryData), Filter: []model.FilterType{*model.NewFilterTypePartial()}, NodeManagementDetailedDiscoveryData: d})
		err := s.dev.SubscriptionManager().AddSubscription(s.dev.RemoteDeviceForSki(p.ski), model.SubscriptionManagementRequestCallType{
			ClientAddress: s.remoteAddr(p, "c21"), ServerAddress: f.Address(), ServerFeatureType: ptr(model.FeatureTypeTypeDeviceDiagnosis)})
		subOK = err == nil
	}
	if !c.Init {
		hm.StopHeartbeat()
	}
	time.Sleep(hbPeriod / 5)
	var procs []string
	for pn := range c.Kind {
		procs = append(procs, pn)
	}
	sort.Strings(procs)
	gates := []string{"StopHeartbeat.beforeClose", "StartHeartbeat.afterStop", "StartHeartbeat.afterMake"}
	for _, pn := range procs {
		kind := c.Kind[pn]
		sched.Add(pn, gates, func() {
			if kind == "start" {
				_ = hm.StartHeartbeat()
			} else {
				hm.StopHeartbeat()
			}
		})
	}
	first, last := map[string]int{}, map[string]int{}
	for i, name := range c.Sched {
		if _, ok := first[name]; !ok {
			first[name] = i
		}
		last[name] = i
		if _, ok := sched.Step(name); !ok {
			line.Realised = false
			break
		}
	}
	if !sched.Drain() {
		line.Panic = "a call did not return"
	}
	for _, sp := range sched.procs {
		if sp.panicV != "" {
			line.Panic = sp.name + ": " + sp.panicV
		}
	}
	for _, pn := range procs {
		if _, ok := first[pn]; ok {
			line.Ops = append(line.Ops, HbOp{P: pn, Kind: c.Kind[pn], First: first[pn], Last: last[pn]})
		}
	}
	// observation window: which streams refresh the data now?
	time.Sleep(hbPeriod)
	obs.mu.Lock()
	obs.ticks = nil
	obs.mu.Unlock()
	p.w.drain()
	const periods = 4
	time.Sleep(periods * hbPeriod)
	line.Running = hm.IsHeartbeatRunning()
	obs.mu.Lock()
	ticks := obs.ticks
	line.PeriodOk = true
	for _, d := range obs.periods {
		if d <= 0 || d > hbPeriod {
			line.PeriodOk = false
		}
	}
	obs.mu.Unlock()
	chans := map[string]int{}
	line.CtrOk = true
	obs.mu.Lock()
	prev := obs.maxCtr
	obs.mu.Unlock()
	for _, t := range ticks {
		chans[t.ch]++
		if t.ctr <= prev {
			line.CtrOk = false
		}
		prev = t.ctr
	}
	obs.mu.Lock()
	if prev > obs.maxCtr {
		obs.maxCtr = prev
	}
	obs.mu.Unlock()
	// a stream is live if it refreshed at least twice in the window (one refresh may have been in flight when it was stopped)
	for _, n := range chans {
		if n >= 2 {
			line.Live++
		}
	}
	line.Rate, line.Window = len(ticks), periods
	// notifications to the subscriber in the window: one per refresh (allowing one at each edge of the window)
	notes := 0
	for _, raw := range p.w.drain() {
		if strings.Contains(string(raw), "deviceDiagnosisHeartbeatData") && strings.Contains(string(raw), `"cmdClassifier":"notify"`) {
			notes++
		}
	}
	line.Notified = !subOK || (notes >= len(ticks)-1 && notes <= len(ticks)+1)
	// stop whatever is still running (also orphans cannot be stopped: they end with the process)
	hm.StopHeartbeat()
	s.dev.RemoveEntity(ent)
	return line
}

// observe: which of this run's streams refresh the data in a window of some periods, what is notified meanwhile
func hbObserve(obs *hbObs, p *Peer, hm interface{ IsHeartbeatRunning() bool }, subOK bool, line *HbLine) {
	time.Sleep(hbPeriod)
	obs.mu.Lock()
	obs.ticks = nil
	obs.mu.Unlock()
	p.w.drain()
	const periods = 4
	time.Sleep(periods * hbPeriod)
	line.Running = hm.IsHeartbeatRunning()
	obs.mu.Lock()
	ticks := obs.ticks
	line.PeriodOk = true
	for _, d := range obs.periods {
		if d <= 0 || d > hbPeriod {
			line.PeriodOk = false
		}
	}
	obs.mu.Unlock()
	chans := map[string]int{}
	line.CtrOk = true
	obs.mu.Lock()
	prev := obs.maxCtr
	obs.mu.Unlock()
	for _, t := range ticks {
		chans[t.ch]++
		if t.ctr <= prev {
			line.CtrOk = false
		}
		prev = t.ctr
	}
	obs.mu.Lock()
	if prev > obs.maxCtr {
		obs.maxCtr = prev
	}
	obs.mu.Unlock()
	line.Live = 0
	for _, n := range chans {
		if n >= 2 {
			line.Live++
		}
	}
	line.Rate, line.Window = len(ticks), periods
	notes := 0
	for _, raw := range p.w.drain() {
		if strings.Contains(string(raw), "deviceDiagnosisHeartbeatData") && strings.Contains(string(raw), `"cmdClassifier":"notify"`) {
			notes++
		}
	}
	line.Notified = !subOK || (notes >= len(ticks)-1 && notes <= len(ticks)+1)
}

func hbSetup(topo *Topo, timeout time.Duration) (s *System, p *Peer, obs *hbObs, ent *spine.EntityLocal, subOK bool) {
	s = NewSystem(topo)
	p = s.peers["p1"]
	s.step(Action{"a": "connect", "p": "p1"})
	s.step(Action{"a": "discover", "p": "p1", "ents": []any{"1", "2"}, "ack": false})
	obs = &hbObs{mine: map[string]bool{}}
	spine.VerifSetHook(func(point string, args ...any) {
		switch point {
		case "Heartbeat.tick":
			obs.mu.Lock()
			if obs.mine[fmt.Sprint(args[0])] {
				obs.ticks = append(obs.ticks, struct {
					ch  string
					ctr uint64
				}{fmt.Sprint(args[0]), args[1].(uint64)})
			}
			obs.mu.Unlock()
		case "Heartbeat.period":
			obs.mu.Lock()
			obs.mine[fmt.Sprint(args[0])] = true
			obs.periods = append(obs.periods, args[1].(time.Duration))
			obs.mu.Unlock()
			if args[1].(time.Duration) <= 0 {
				// time.NewTicker would panic in a goroutine of the stack and take the process down: the period is
				// recorded (and reported), this stream ends here
				runtime.Goexit()
			}
		}
	})
	ent = spine.NewEntityLocal(s.dev, model.EntityTypeTypeCEM, entAddr("5"), timeout)
	f := ent.GetOrAddFeature(model.FeatureTypeTypeDeviceDiagnosis, model.RoleTypeServer)
	s.dev.AddEntity(ent)
	st := model.NetworkManagementStateChangeTypeAdded
	d := s.discoveryItems(p, []annItem{{E: "2", Fs: []string{"c21"}, V: 1, State: &st}}, true)
	for i := range d.FeatureInformation {
		d.FeatureInformation[i].Description.FeatureType = ptr(model.FeatureTypeTypeGeneric)
	}
	s.inject(p, model.CmdClassifierTypeNotify, s.remoteAddr(p, "nm"), s.nmLocal(), false, nil,
		model.CmdType{Function: ptr(model.FunctionTypeNodeManagementDetailedDiscoveryData), Filter: []model.FilterType{*model.NewFilterTypePartial()}, NodeManagementDetailedDiscoveryData: d})
	err := s.dev.SubscriptionManager().AddSubscription(s.dev.RemoteDeviceForSki(p.ski), model.SubscriptionManagementRequestCallType{
		ClientAddress: s.remoteAddr(p, "c21"), ServerAddress: f.Address(), ServerFeatureType: ptr(model.FeatureTypeTypeDeviceDiagnosis)})
	subOK = err == nil
	f.AddFunctionType(model.FunctionTypeDeviceDiagnosisHeartbeatData, true, false)
	return
}

// sequential histories: after every operation the running heartbeat (or its absence) is observed
func runHbSeq(topo *Topo, c HbCfg) []HbLine {
	s, p, obs, ent, subOK := hbSetup(topo, hbPeriod)
	defer spine.VerifSetHook(nil)
	defer s.Close()
	hm := ent.HeartbeatManager()
	var lines []HbLine
	for i, op := range c.Seq {
		line := HbLine{Mode: "seq", Op: op, Pre: append([]string{}, c.Seq[:i]...), Ops: []HbOp{}, Sched: []string{}, Kind: map[string]string{}, Realised: true}
		func() {
			defer func() {
				if r := recover(); r != nil {
					line.Panic = fmt.Sprint(r)
				}
			}()
			switch op {
			case "start":
				_ = hm.StartHeartbeat()
			case "stop":
				hm.StopHeartbeat()
			case "rement":
				s.dev.RemoveEntity(ent)
			case "addent":
				if s.dev.Entity(entAddr("5")) == nil {
					s.dev.AddEntity(ent)
				}
			case "addfn":
				// the heartbeat function is added to its feature once more (it is there already: nothing changes)
				if f := ent.FeatureOfTypeAndRole(model.FeatureTypeTypeDeviceDiagnosis, model.RoleTypeServer); f != nil && !isNilIface(f) {
					f.AddFunctionType(model.FunctionTypeDeviceDiagnosisHeartbeatData, true, false)
				}
			}
		}()
		hbObserve(obs, p, hm, subOK && op != "rement", &line)
		lines = append(lines, line)
	}
	hm.StopHeartbeat()
	return lines
}

// the period rule: 0 < ticker period <= announced timeout, read from the hook (no waiting)
func runHbPeriods(topo *Topo, c HbCfg) HbLine {
	line := HbLine{Mode: "periods", PeriodOk: true, Ops: []HbOp{}, Sched: []string{}, Kind: map[string]string{}, Pre: []string{}, Realised: true, CtrOk: true, Notified: true}
	for _, ms := range c.Periods {
		timeout := time.Duration(ms) * time.Millisecond
		s, _, obs, ent, _ := hbSetup(topo, timeout)
		time.Sleep(time.Millisecond)
		// the announced timeout is the configured one in the resolution of its textual form (0.1 s), never more; the
		// period does not exceed what was ANNOUNCED
		announced := time.Duration(0)
		if d, ok := ent.FeatureOfTypeAndRole(model.FeatureTypeTypeDeviceDiagnosis, model.RoleTypeServer).DataCopy(model.FunctionTypeDeviceDiagnosisHeartbeatData).(*model.DeviceDiagnosisHeartbeatDataType); ok && d != nil && d.HeartbeatTimeout != nil {
			got, err := d.HeartbeatTimeout.GetTimeDuration()
			announced = got
			if err != nil || got > timeout || got <= timeout-100*time.Millisecond {
				line.PeriodOk = false
				line.Panic += fmt.Sprintf("announced timeout %v for %v; ", got, timeout)
			}
		} else {
			line.PeriodOk = false
			line.Panic += "no heartbeat data; "
		}
		obs.mu.Lock()
		if len(obs.periods) != 1 || obs.periods[0] <= 0 || obs.periods[0] > timeout || obs.periods[0] > announced {
			line.PeriodOk = false
			line.Panic += fmt.Sprintf("timeout %v announced as %v: ticker periods %v; ", timeout, announced, obs.periods)
		}
		obs.mu.Unlock()
		ent.HeartbeatManager().StopHeartbeat()
		s.Close()
		spine.VerifSetHook(nil)
	}
	if !line.PeriodOk {
		line.Panic = "period rule: " + line.Panic
	}
	return line
}
