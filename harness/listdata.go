package main

// Driver for spec/ListData.tla (C02, C04, C11): (existing list, update) cases and update histories on the real
// spine.FunctionData[T] of representative list types; snapshots handed out earlier are re-serialised after every step.

import (
	"bufio"
	"encoding/json"
	"flag"
	"fmt"
	"os"
	"strings"

	"github.com/enbility/spine-go/api"
	"github.com/enbility/spine-go/model"
	"github.com/enbility/spine-go/spine"
)

type AbsItem struct {
	K   []int  `json:"k"`
	V   int    `json:"v"`
	W   int    `json:"w"`
	Chg string `json:"chg"`
}
type AbsSel struct {
	K []int `json:"k"`
}
type AbsUpdate struct {
	Data    []AbsItem `json:"data"`
	Partial string    `json:"partial"`
	PSel    AbsSel    `json:"psel"`
	Delete  string    `json:"delete"`
	DSel    AbsSel    `json:"dsel"`
	DElem   []string  `json:"delem"`
	Remote  bool      `json:"remote"`
	Persist bool      `json:"persist"`
}
type ListCase struct {
	Init []AbsItem   `json:"init"`
	Ups  []AbsUpdate `json:"ups"`
}
type ListLine struct {
	Op      string     `json:"op"`
	Pre     []AbsItem  `json:"pre"`
	U       *AbsUpdate `json:"u"`
	Ok      bool       `json:"ok"`
	Store   []AbsItem  `json:"store"`
	Ret     []AbsItem  `json:"ret"`
	HasRet  bool       `json:"hasret"`
	SnapChg []int      `json:"snapchg"` // indices (steps) of earlier snapshots whose content changed in this step
	Panic   string     `json:"panic"`
	Ci      int        `json:"ci"` // index of the case in the input file
	Fn      string     `json:"fn"` // the list function (reflective adapter)
}

type listAdapter interface {
	newFD() api.FunctionDataInterface
	mk(items []AbsItem) any
	abs(d any) []AbsItem
	selector(k []int) any
	elements(fs []string) any
	fn() model.FunctionType
}

func chgPtr(s string) *bool {
	switch s {
	case "t":
		return ptr(true)
	case "f":
		return ptr(false)
	}
	return nil
}
func chgStr(b *bool) string {
	if b == nil {
		return "nil"
	}
	if *b {
		return "t"
	}
	return "f"
}
func numPtr(v int) *model.ScaledNumberType {
	if v == 0 {
		return nil
	}
	return &model.ScaledNumberType{Number: ptr(model.NumberType(v)), Scale: ptr(model.ScaleType(0))}
}
func numVal(n *model.ScaledNumberType) int {
	if n == nil || n.Number == nil {
		return 0
	}
	return int(*n.Number)
}
func boolW(w int) *bool {
	switch w {
	case 1:
		return ptr(true)
	case 2:
		return ptr(false)
	}
	return nil
}
func wBool(b *bool) int {
	if b == nil {
		return 0
	}
	if *b {
		return 1
	}
	return 2
}
func has(fs []string, f string) bool {
	for _, x := range fs {
		if x == f {
			return true
		}
	}
	return false
}

// ---- LoadControlLimitListData: one key, changeability flag ----
type limitAd struct{}

func (limitAd) fn() model.FunctionType { return model.FunctionTypeLoadControlLimitListData }
func (limitAd) newFD() api.FunctionDataInterface {
	return spine.NewFunctionData[model.LoadControlLimitListDataType](model.FunctionTypeLoadControlLimitListData)
}
func (limitAd) mk(items []AbsItem) any {
	d := &model.LoadControlLimitListDataType{}
	for _, it := range items {
		x := model.LoadControlLimitDataType{Value: numPtr(it.V), IsLimitActive: boolW(it.W), IsLimitChangeable: chgPtr(it.Chg)}
		if it.K[0] != 0 {
			x.LimitId = ptr(model.LoadControlLimitIdType(it.K[0]))
		}
		d.LoadControlLimitData = append(d.LoadControlLimitData, x)
	}
	return d
}
func (limitAd) abs(d any) []AbsItem {
	r := []AbsItem{}
	l, ok := d.(*model.LoadControlLimitListDataType)
	if !ok || l == nil {
		return r
	}
	for _, x := range l.LoadControlLimitData {
		it := AbsItem{K: []int{0}, V: numVal(x.Value), W: wBool(x.IsLimitActive), Chg: chgStr(x.IsLimitChangeable)}
		if x.LimitId != nil {
			it.K[0] = int(*x.LimitId)
		}
		r = append(r, it)
	}
	return r
}
func (limitAd) selector(k []int) any {
	s := &model.LoadControlLimitListDataSelectorsType{}
	if k[0] != 0 {
		s.LimitId = ptr(model.LoadControlLimitIdType(k[0]))
	}
	return s
}
func (limitAd) elements(fs []string) any {
	e := &model.LoadControlLimitDataElementsType{}
	if has(fs, "v") {
		e.Value = &model.ScaledNumberElementsType{}
	}
	if has(fs, "w") {
		e.IsLimitActive = &model.ElementTagType{}
	}
	return e
}

// ---- SetpointListData: one key, changeability flag ----
type setpointAd struct{}

func (setpointAd) fn() model.FunctionType { return model.FunctionTypeSetpointListData }
func (setpointAd) newFD() api.FunctionDataInterface {
	return spine.NewFunctionData[model.SetpointListDataType](model.FunctionTypeSetpointListData)
}
func (setpointAd) mk(items []AbsItem) any {
	d := &model.SetpointListDataType{}
	for _, it := range items {
		x := model.SetpointDataType{Value: numPtr(it.V), IsSetpointActive: boolW(it.W), IsSetpointChangeable: chgPtr(it.Chg)}
		if it.K[0] != 0 {
			x.SetpointId = ptr(model.SetpointIdType(it.K[0]))
		}
		d.SetpointData = append(d.SetpointData, x)
	}
	return d
}
func (setpointAd) abs(d any) []AbsItem {
	r := []AbsItem{}
	l, ok := d.(*model.SetpointListDataType)
	if !ok || l == nil {
		return r
	}
	for _, x := range l.SetpointData {
		it := AbsItem{K: []int{0}, V: numVal(x.Value), W: wBool(x.IsSetpointActive), Chg: chgStr(x.IsSetpointChangeable)}
		if x.SetpointId != nil {
			it.K[0] = int(*x.SetpointId)
		}
		r = append(r, it)
	}
	return r
}
func (setpointAd) selector(k []int) any {
	s := &model.SetpointListDataSelectorsType{}
	if k[0] != 0 {
		s.SetpointId = ptr(model.SetpointIdType(k[0]))
	}
	return s
}
func (setpointAd) elements(fs []string) any {
	e := &model.SetpointDataElementsType{}
	if has(fs, "v") {
		e.Value = &model.ScaledNumberElementsType{}
	}
	if has(fs, "w") {
		e.IsSetpointActive = &model.ElementTagType{}
	}
	return e
}

// ---- ElectricalConnectionParameterDescriptionListData: two keys, no flag ----
type ecparamAd struct{}

func (ecparamAd) fn() model.FunctionType {
	return model.FunctionTypeElectricalConnectionParameterDescriptionListData
}
func (ecparamAd) newFD() api.FunctionDataInterface {
	return spine.NewFunctionData[model.ElectricalConnectionParameterDescriptionListDataType](model.FunctionTypeElectricalConnectionParameterDescriptionListData)
}
func (ecparamAd) mk(items []AbsItem) any {
	d := &model.ElectricalConnectionParameterDescriptionListDataType{}
	for _, it := range items {
		x := model.ElectricalConnectionParameterDescriptionDataType{}
		if it.K[0] != 0 {
			x.ElectricalConnectionId = ptr(model.ElectricalConnectionIdType(it.K[0]))
		}
		if it.K[1] != 0 {
			x.ParameterId = ptr(model.ElectricalConnectionParameterIdType(it.K[1]))
		}
		if it.V != 0 {
			x.MeasurementId = ptr(model.MeasurementIdType(it.V))
		}
		if it.W != 0 {
			x.AcMeasuredHarmonic = ptr(uint8(it.W))
		}
		d.ElectricalConnectionParameterDescriptionData = append(d.ElectricalConnectionParameterDescriptionData, x)
	}
	return d
}
func (ecparamAd) abs(d any) []AbsItem {
	r := []AbsItem{}
	l, ok := d.(*model.ElectricalConnectionParameterDescriptionListDataType)
	if !ok || l == nil {
		return r
	}
	for _, x := range l.ElectricalConnectionParameterDescriptionData {
		it := AbsItem{K: []int{0, 0}, Chg: "nil"}
		if x.ElectricalConnectionId != nil {
			it.K[0] = int(*x.ElectricalConnectionId)
		}
		if x.ParameterId != nil {
			it.K[1] = int(*x.ParameterId)
		}
		if x.MeasurementId != nil {
			it.V = int(*x.MeasurementId)
		}
		if x.AcMeasuredHarmonic != nil {
			it.W = int(*x.AcMeasuredHarmonic)
		}
		r = append(r, it)
	}
	return r
}
func (ecparamAd) selector(k []int) any {
	s := &model.ElectricalConnectionParameterDescriptionListDataSelectorsType{}
	if k[0] != 0 {
		s.ElectricalConnectionId = ptr(model.ElectricalConnectionIdType(k[0]))
	}
	if k[1] != 0 {
		s.ParameterId = ptr(model.ElectricalConnectionParameterIdType(k[1]))
	}
	return s
}
func (ecparamAd) elements(fs []string) any {
	e := &model.ElectricalConnectionParameterDescriptionDataElementsType{}
	if has(fs, "v") {
		e.MeasurementId = &model.ElementTagType{}
	}
	if has(fs, "w") {
		e.AcMeasuredHarmonic = &model.ElementTagType{}
	}
	return e
}

var listAdapters = map[string]listAdapter{"limit": limitAd{}, "setpoint": setpointAd{}, "ecparam": ecparamAd{}}

func buildFilters(ad listAdapter, u *AbsUpdate) (fp, fd *model.FilterType) {
	if u.Partial != "none" {
		fp = &model.FilterType{CmdControl: &model.CmdControlType{Partial: &model.ElementTagType{}}}
		if u.Partial == "sel" {
			fp.SetDataForFunction(model.EEBusTagTypeTypeSelector, ad.fn(), ad.selector(u.PSel.K))
		}
	}
	if u.Delete != "none" {
		fd = &model.FilterType{CmdControl: &model.CmdControlType{Delete: &model.ElementTagType{}}}
		if u.Delete == "sel" || u.Delete == "selelem" {
			fd.SetDataForFunction(model.EEBusTagTypeTypeSelector, ad.fn(), ad.selector(u.DSel.K))
		}
		if u.Delete == "elem" || u.Delete == "selelem" {
			fd.SetDataForFunction(model.EEbusTagTypeTypeElements, ad.fn(), ad.elements(u.DElem))
		}
	}
	return
}

type snap struct {
	obj  any
	json string
	step int
}

func ser(v any) string {
	b, _ := json.Marshal(v)
	return string(b)
}

func listReplay(args []string) {
	fs := flag.NewFlagSet("list-replay", flag.ExitOnError)
	inF := fs.String("in", "", "cases ndjson")
	outF := fs.String("out", "", "trace ndjson")
	typ := fs.String("type", "limit", "limit | setpoint | ecparam")
	must(fs.Parse(args))
	ad, ok := listAdapters[*typ]
	noW := false
	if strings.HasPrefix(*typ, "refl:") {
		m, _ := reflAdapters()
		ra, found := m[strings.TrimPrefix(*typ, "refl:")]
		if !found {
			must(fmt.Errorf("no reflective adapter for %s", *typ))
		}
		ad, ok, noW = ra, true, ra.wIdx < 0
	}
	if !ok {
		must(fmt.Errorf("unknown list type %s", *typ))
	}
	in, err := os.Open(*inF)
	must(err)
	defer in.Close()
	out, err := os.Create(*outF)
	must(err)
	defer out.Close()
	w := bufio.NewWriterSize(out, 1<<20)
	defer w.Flush()
	enc := json.NewEncoder(w)
	sc := bufio.NewScanner(in)
	sc.Buffer(make([]byte, 1<<20), 1<<26)
	nb, ns := 0, 0
	for sc.Scan() {
		var c ListCase
		must(json.Unmarshal(sc.Bytes(), &c))
		if noW && usesW(&c) {
			// the element type has one value field only
			nb++
			continue
		}
		fdata := ad.newFD()
		if len(c.Init) > 0 {
			if _, e := fdata.UpdateDataAny(false, true, ad.mk(c.Init), nil, nil); e != nil {
				must(fmt.Errorf("cannot set initial list: %s", e.String()))
			}
		}
		var snaps []snap
		for i := range c.Ups {
			u := &c.Ups[i]
			line := ListLine{Op: "update", U: u, SnapChg: []int{}, Ret: []AbsItem{}, Ci: nb, Fn: string(ad.fn())}
			pre := fdata.DataCopyAny()
			line.Pre = ad.abs(pre)
			snaps = append(snaps, snap{pre, ser(pre), i})
			func() {
				defer func() {
					if r := recover(); r != nil {
						line.Panic = fmt.Sprint(r)
					}
				}()
				fp, fd := buildFilters(ad, u)
				ret, e := fdata.UpdateDataAny(u.Remote, u.Persist, ad.mk(u.Data), fp, fd)
				line.Ok = e == nil
				if e == nil && ret != nil && !isNilIface(ret) {
					// the engine returns the element slice; wrap it for the abstraction
					line.Ret, line.HasRet = absAnyList(ad, ret), true
				}
			}()
			line.Store = ad.abs(fdata.DataCopyAny())
			for _, s := range snaps {
				if ser(s.obj) != s.json {
					line.SnapChg = append(line.SnapChg, s.step)
				}
			}
			// re-baseline so that one change is reported once
			for j := range snaps {
				snaps[j].json = ser(snaps[j].obj)
			}
			must(enc.Encode(line))
			ns++
		}
		nb++
	}
	fmt.Printf("{\"behaviours\": %d, \"steps\": %d}\n", nb, ns)
}

// absAnyList abstracts what UpdateData returned: the list data object, or the bare element slice
func absAnyList(ad listAdapter, ret any) []AbsItem {
	switch v := ret.(type) {
	case []model.LoadControlLimitDataType:
		return ad.abs(&model.LoadControlLimitListDataType{LoadControlLimitData: v})
	case []model.SetpointDataType:
		return ad.abs(&model.SetpointListDataType{SetpointData: v})
	case []model.ElectricalConnectionParameterDescriptionDataType:
		return ad.abs(&model.ElectricalConnectionParameterDescriptionListDataType{ElectricalConnectionParameterDescriptionData: v})
	}
	return ad.abs(ret)
}

func usesW(c *ListCase) bool {
	for _, it := range c.Init {
		if it.W != 0 {
			return true
		}
	}
	for _, u := range c.Ups {
		for _, it := range u.Data {
			if it.W != 0 {
				return true
			}
		}
		if has(u.DElem, "w") {
			return true
		}
	}
	return false
}
