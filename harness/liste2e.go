package main

// End-to-end driver for spec/ListData.tla (C02, C04, C11): the same (existing list, update) cases and histories as
// list-replay, but through the whole stack:
//   store A  a local server feature: local updates through FeatureLocal.SetData / UpdateData, remote writes as write
//            datagrams of a bound peer (outcome = the result datagram)
//   store B  the cache of a peer's server feature: updates as notify / reply datagrams of that peer (outcome = the
//            result datagram), non-persisting updates through FeatureRemote.UpdateData(false, ...)
// Snapshots: every object returned by DataCopy before a step, the data delivered in data-change events, the data
// returned by FeatureRemote.UpdateData; all are re-serialised after every later step.

import (
	"bufio"
	"encoding/json"
	"flag"
	"fmt"
	"hash/fnv"
	"os"
	"time"

	shipapi "github.com/enbility/ship-go/api"
	"github.com/enbility/spine-go/api"
	"github.com/enbility/spine-go/model"
	"github.com/enbility/spine-go/spine"
)

var e2eFeatureType = map[string]model.FeatureTypeType{
	"limit":    model.FeatureTypeTypeLoadControl,
	"setpoint": model.FeatureTypeTypeSetpoint,
	"ecparam":  model.FeatureTypeTypeElectricalConnection,
}

type e2eSys struct {
	ad       listAdapter
	dev      *spine.DeviceLocal
	srv, cli api.FeatureLocalInterface
	rsrv     api.FeatureRemoteInterface
	w        *Writer
	reader   shipapi.ShipConnectionDataReaderInterface
	ski      string
	ctr      uint64
	pdev     model.AddressDeviceType
	evData   []any
}

var e2eCounter int

func (s *e2eSys) HandleEvent(p api.EventPayload) {
	if p.Ski == s.ski && p.EventType == api.EventTypeDataChange && p.Data != nil && !isNilIface(p.Data) {
		s.evData = append(s.evData, p.Data)
	}
}

func (s *e2eSys) paddr(ent, feat uint) *model.FeatureAddressType {
	d := s.pdev
	return &model.FeatureAddressType{Device: &d, Entity: []model.AddressEntityType{model.AddressEntityType(ent)}, Feature: ptr(model.AddressFeatureType(feat))}
}

func (s *e2eSys) send(cls model.CmdClassifierType, src, dst *model.FeatureAddressType, ack bool, ref *uint64, cmd model.CmdType) uint64 {
	s.ctr++
	ctr := model.MsgCounterType(s.ctr)
	h := model.HeaderType{SpecificationVersion: &spine.SpecificationVersion, AddressSource: src, AddressDestination: dst, MsgCounter: &ctr, CmdClassifier: &cls}
	if ack {
		h.AckRequest = &ack
	}
	if ref != nil {
		h.MsgCounterReference = ptr(model.MsgCounterType(*ref))
	}
	b, err := json.Marshal(model.Datagram{Datagram: model.DatagramType{Header: h, Payload: model.PayloadType{Cmd: []model.CmdType{cmd}}}})
	must(err)
	s.reader.HandleShipPayloadMessage(b)
	return s.ctr
}

// outbound datagrams since the last call
func (s *e2eSys) out() []model.DatagramType {
	var r []model.DatagramType
	for _, m := range s.w.drain() {
		var d model.Datagram
		if json.Unmarshal(m, &d) == nil {
			r = append(r, d.Datagram)
		}
	}
	return r
}

// the result the stack sent for our datagram ctr: 1 success, 2 error, 0 none
func resultFor(out []model.DatagramType, ctr uint64) int {
	res := 0
	for _, d := range out {
		if d.Header.MsgCounterReference == nil || uint64(*d.Header.MsgCounterReference) != ctr || len(d.Payload.Cmd) == 0 {
			continue
		}
		if rd := d.Payload.Cmd[0].ResultData; rd != nil && rd.ErrorNumber != nil {
			if *rd.ErrorNumber == model.ErrorNumberTypeNoError {
				res = 1
			} else {
				res = 2
			}
		}
	}
	return res
}

func newE2E(typ string) *e2eSys {
	e2eCounter++
	s := &e2eSys{ad: listAdapters[typ], w: &Writer{}, ski: fmt.Sprintf("ski-e2e-%d", e2eCounter), pdev: "d:peer"}
	ft := e2eFeatureType[typ]
	s.dev = spine.NewDeviceLocal("brand", "model", "serial", "code", localDevAddr, model.DeviceTypeTypeEnergyManagementSystem, model.NetworkManagementFeatureSetTypeSmart)
	ent := spine.NewEntityLocal(s.dev, model.EntityTypeTypeCEM, []model.AddressEntityType{1}, time.Second*4)
	s.srv = ent.GetOrAddFeature(ft, model.RoleTypeServer)
	s.srv.AddFunctionType(s.ad.fn(), true, true)
	s.cli = ent.GetOrAddFeature(ft, model.RoleTypeClient)
	s.dev.AddEntity(ent)
	spine.VerifSubscribeCore(s)
	s.reader = s.dev.SetupRemoteDevice(s.ski, s.w)
	// the stack reads the detailed discovery data; answer it: entity [1] with a client (1) and a server (2) feature
	var ref *uint64
	for _, d := range s.out() {
		if len(d.Payload.Cmd) > 0 && d.Payload.Cmd[0].NodeManagementDetailedDiscoveryData != nil && d.Header.MsgCounter != nil {
			ref = ptr(uint64(*d.Header.MsgCounter))
		}
	}
	pd := s.pdev
	rw := &model.PossibleOperationsType{Read: &model.PossibleOperationsReadType{}, Write: &model.PossibleOperationsWriteType{Partial: &model.ElementTagType{}}}
	disc := &model.NodeManagementDetailedDiscoveryDataType{
		SpecificationVersionList: &model.NodeManagementSpecificationVersionListType{SpecificationVersion: []model.SpecificationVersionDataType{"1.3.0"}},
		DeviceInformation: &model.NodeManagementDetailedDiscoveryDeviceInformationType{Description: &model.NetworkManagementDeviceDescriptionDataType{
			DeviceAddress: &model.DeviceAddressType{Device: &pd}, DeviceType: ptr(model.DeviceTypeTypeChargingStation), NetworkFeatureSet: ptr(model.NetworkManagementFeatureSetTypeSmart)}},
		EntityInformation: []model.NodeManagementDetailedDiscoveryEntityInformationType{
			{Description: &model.NetworkManagementEntityDescriptionDataType{EntityAddress: &model.EntityAddressType{Device: &pd, Entity: []model.AddressEntityType{0}}, EntityType: ptr(model.EntityTypeTypeDeviceInformation)}},
			{Description: &model.NetworkManagementEntityDescriptionDataType{EntityAddress: &model.EntityAddressType{Device: &pd, Entity: []model.AddressEntityType{1}}, EntityType: ptr(model.EntityTypeTypeEVSE)}},
		},
		FeatureInformation: []model.NodeManagementDetailedDiscoveryFeatureInformationType{
			{Description: &model.NetworkManagementFeatureDescriptionDataType{FeatureAddress: s.paddr(0, 0), FeatureType: ptr(model.FeatureTypeTypeNodeManagement), Role: ptr(model.RoleTypeSpecial),
				SupportedFunction: []model.FunctionPropertyType{{Function: ptr(model.FunctionTypeNodeManagementDetailedDiscoveryData), PossibleOperations: &model.PossibleOperationsType{Read: &model.PossibleOperationsReadType{}}}}}},
			{Description: &model.NetworkManagementFeatureDescriptionDataType{FeatureAddress: s.paddr(1, 1), FeatureType: &ft, Role: ptr(model.RoleTypeClient)}},
			{Description: &model.NetworkManagementFeatureDescriptionDataType{FeatureAddress: s.paddr(1, 2), FeatureType: &ft, Role: ptr(model.RoleTypeServer),
				SupportedFunction: []model.FunctionPropertyType{{Function: ptr(s.ad.fn()), PossibleOperations: rw}}}},
		},
	}
	s.send(model.CmdClassifierTypeReply, s.paddr(0, 0), s.dev.NodeManagement().Address(), false, ref, model.CmdType{NodeManagementDetailedDiscoveryData: disc})
	// the peer's client feature subscribes and binds to the local server feature
	c1 := s.send(model.CmdClassifierTypeCall, s.paddr(0, 0), s.dev.NodeManagement().Address(), true, nil,
		model.CmdType{NodeManagementSubscriptionRequestCall: spine.NewNodeManagementSubscriptionRequestCallType(s.paddr(1, 1), s.srv.Address(), ft)})
	c2 := s.send(model.CmdClassifierTypeCall, s.paddr(0, 0), s.dev.NodeManagement().Address(), true, nil,
		model.CmdType{NodeManagementBindingRequestCall: spine.NewNodeManagementBindingRequestCallType(s.paddr(1, 1), s.srv.Address(), ft)})
	o := s.out()
	if resultFor(o, c1) != 1 || resultFor(o, c2) != 1 {
		must(fmt.Errorf("list-e2e setup: subscription / binding not granted"))
	}
	rd := s.dev.RemoteDeviceForSki(s.ski)
	if rd == nil {
		must(fmt.Errorf("list-e2e setup: no remote device"))
	}
	s.rsrv = rd.FeatureByAddress(s.paddr(1, 2))
	if s.rsrv == nil || isNilIface(s.rsrv) {
		must(fmt.Errorf("list-e2e setup: remote server feature not known"))
	}
	s.evData = nil
	return s
}

func (s *e2eSys) close() {
	s.dev.RemoveRemoteDeviceConnection(s.ski)
	spine.VerifUnsubscribeCore(s)
}

// the command a peer sends for update u (write, notify or reply)
func (s *e2eSys) cmdFor(u *AbsUpdate) model.CmdType {
	cmd := model.CmdType{}
	cmd.SetDataForFunction(s.ad.fn(), s.ad.mk(u.Data))
	fp, fd := buildFilters(s.ad, u)
	// the order of the filter elements of a command is not prescribed: delete filter first, as the stack itself builds
	// it, or the partial filter first (decided by a hash of the update, so that a case is reproducible)
	h := fnv.New32a()
	h.Write([]byte(ser(u)))
	if fp != nil && fd != nil && h.Sum32()%2 == 1 {
		cmd.Filter = append(cmd.Filter, *fp, *fd)
		fp, fd = nil, nil
	}
	if fd != nil {
		cmd.Filter = append(cmd.Filter, *fd)
	}
	if fp != nil {
		cmd.Filter = append(cmd.Filter, *fp)
	}
	if len(cmd.Filter) > 0 {
		cmd.Function = ptr(s.ad.fn())
	}
	return cmd
}

type snapSet struct{ snaps []snap }

func (ss *snapSet) add(obj any, step int) {
	if obj == nil || isNilIface(obj) {
		return
	}
	ss.snaps = append(ss.snaps, snap{obj, ser(obj), step})
}
func (ss *snapSet) changed() []int {
	r := []int{}
	for i := range ss.snaps {
		if now := ser(ss.snaps[i].obj); now != ss.snaps[i].json {
			r = append(r, ss.snaps[i].step)
			ss.snaps[i].json = now // one change is reported once
		}
	}
	return r
}

type E2ELine struct {
	ListLine
	Path string `json:"path"`
}

func listE2E(args []string) {
	fs := flag.NewFlagSet("list-e2e", flag.ExitOnError)
	inF := fs.String("in", "", "cases ndjson")
	outF := fs.String("out", "", "trace ndjson")
	typ := fs.String("type", "limit", "limit | setpoint | ecparam")
	must(fs.Parse(args))
	ad, ok := listAdapters[*typ]
	if !ok {
		must(fmt.Errorf("unknown list type %s", *typ))
	}
	in, err := os.Open(*inF)
	must(err)
	defer in.Close()
	out, err := os.Create(*outF)
	must(err)
	defer out.Close()
	w := bufio.NewWriterSize(out, 1<<20)
	defer w.Flush()
	enc := json.NewEncoder(w)
	sc := bufio.NewScanner(in)
	sc.Buffer(make([]byte, 1<<20), 1<<26)
	nb, ns := 0, 0
	for sc.Scan() {
		var c ListCase
		must(json.Unmarshal(sc.Bytes(), &c))
		s := newE2E(*typ)
		// ---- store A: the local server feature ----
		if len(c.Init) > 0 {
			s.srv.SetData(ad.fn(), ad.mk(c.Init))
		}
		s.out()
		s.evData = nil
		ss := &snapSet{}
		for i := range c.Ups {
			u := &c.Ups[i]
			if !u.Persist {
				continue
			}
			line := E2ELine{ListLine: ListLine{Op: "update", U: u, SnapChg: []int{}, Ret: []AbsItem{}, Ci: nb}}
			pre := s.srv.DataCopy(ad.fn())
			line.Pre = ad.abs(pre)
			ss.add(pre, i)
			func() {
				defer func() {
					if r := recover(); r != nil {
						line.Panic = fmt.Sprint(r)
					}
				}()
				if u.Remote {
					line.Path = "write"
					// one write in three does not ask for an acknowledgement: a rejected write is answered with an error
					// result all the same, an accepted one with nothing (then "accepted" is what the missing result says,
					// and the store must show it)
					hh := fnv.New32a()
					hh.Write([]byte(ser(u)))
					ack := hh.Sum32()%3 != 0
					ctr := s.send(model.CmdClassifierTypeWrite, s.paddr(1, 1), s.srv.Address(), ack, nil, s.cmdFor(u))
					switch resultFor(s.out(), ctr) {
					case 1:
						line.Ok = true
						if !ack {
							line.Panic = "success result although no acknowledgement was requested"
						}
					case 2:
						line.Ok = false
					default:
						line.Ok = true
						if ack {
							line.Panic = "no result for the write"
						}
					}
				} else {
					line.Path = "local"
					fp, fd := buildFilters(ad, u)
					var e *model.ErrorType
					if fp == nil && fd == nil && i%2 == 0 {
						s.srv.SetData(ad.fn(), ad.mk(u.Data))
					} else {
						e = s.srv.UpdateData(ad.fn(), ad.mk(u.Data), fp, fd)
					}
					line.Ok = e == nil
					s.out()
				}
			}()
			line.Store = ad.abs(s.srv.DataCopy(ad.fn()))
			line.SnapChg = ss.changed()
			for _, d := range s.evData {
				ss.add(d, i)
			}
			s.evData = nil
			must(enc.Encode(line))
			ns++
		}
		// ---- store B: the cache of the peer's server feature ----
		if len(c.Init) > 0 {
			cmd := model.CmdType{}
			cmd.SetDataForFunction(ad.fn(), ad.mk(c.Init))
			s.send(model.CmdClassifierTypeNotify, s.paddr(1, 2), s.cli.Address(), false, nil, cmd)
		}
		s.out()
		s.evData = nil
		ss = &snapSet{}
		for i := range c.Ups {
			u := &c.Ups[i]
			if u.Remote {
				continue
			}
			line := E2ELine{ListLine: ListLine{Op: "update", U: u, SnapChg: []int{}, Ret: []AbsItem{}, Ci: nb}}
			pre := s.rsrv.DataCopy(ad.fn())
			line.Pre = ad.abs(pre)
			ss.add(pre, i)
			var retObj any
			func() {
				defer func() {
					if r := recover(); r != nil {
						line.Panic = fmt.Sprint(r)
					}
				}()
				if u.Persist {
					cls, ref := model.CmdClassifierTypeNotify, (*uint64)(nil)
					line.Path = "notify"
					if i%2 == 1 {
						cls, ref, line.Path = model.CmdClassifierTypeReply, ptr(uint64(424242)), "reply"
					}
					ctr := s.send(cls, s.paddr(1, 2), s.cli.Address(), true, ref, s.cmdFor(u))
					switch resultFor(s.out(), ctr) {
					case 1:
						line.Ok = true
					case 2:
						line.Ok = false
					default:
						line.Panic = "no result for the " + line.Path
					}
				} else {
					line.Path = "cache"
					fp, fd := buildFilters(ad, u)
					ret, e := s.rsrv.UpdateData(false, ad.fn(), ad.mk(u.Data), fp, fd)
					line.Ok = e == nil
					if e == nil && ret != nil && !isNilIface(ret) {
						line.Ret, line.HasRet = absAnyList(ad, ret), true
						retObj = ret
					}
				}
			}()
			line.Store = ad.abs(s.rsrv.DataCopy(ad.fn()))
			line.SnapChg = ss.changed()
			for _, d := range s.evData {
				ss.add(d, i)
			}
			s.evData = nil
			ss.add(retObj, i)
			must(enc.Encode(line))
			ns++
		}
		s.close()
		nb++
	}
	fmt.Printf("{\"behaviours\": %d, \"steps\": %d}\n", nb, ns)
}
