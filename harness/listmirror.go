package main

// Replica pass of the end-to-end list driver (spec/Replica.tla, beyond the listed properties): the notifications the
// real server feature sends to its subscriber are fed back, re-addressed, as notifications of the peer's server
// feature, so that the real remote-feature cache plays the subscriber's replica of the server's data.

import (
	"bufio"
	"encoding/json"
	"flag"
	"fmt"
	"os"

	"github.com/enbility/spine-go/model"
)

type MirrorLine struct {
	Path   string     `json:"path"`
	Api    string     `json:"api"`
	Pre    []AbsItem  `json:"pre"`
	U      *AbsUpdate `json:"u"`
	Ok     bool       `json:"ok"`
	Store  []AbsItem  `json:"store"`
	MPre   []AbsItem  `json:"mpre"`
	Mirror []AbsItem  `json:"mirror"`
	NNotif int        `json:"nnotif"`
	Panic  string     `json:"panic"`
	Ci     int        `json:"ci"`
}

// notifications of function fn the stack sent to the subscriber, re-addressed and fed to the cache
func (s *e2eSys) reflectNotifies(out []model.DatagramType) int {
	n := 0
	for _, d := range out {
		if d.Header.CmdClassifier == nil || *d.Header.CmdClassifier != model.CmdClassifierTypeNotify || len(d.Payload.Cmd) == 0 {
			continue
		}
		cmd := d.Payload.Cmd[0]
		if cd, err := cmd.Data(); err != nil || cd.Function == nil || *cd.Function != s.ad.fn() {
			continue
		}
		n++
		s.send(model.CmdClassifierTypeNotify, s.paddr(1, 2), s.cli.Address(), false, nil, cmd)
	}
	s.out()
	return n
}

func (s *e2eSys) mirrorCase(c ListCase, ci int, enc *json.Encoder) (steps int) {
	ad := s.ad
	if len(c.Init) > 0 {
		s.srv.SetData(ad.fn(), ad.mk(c.Init))
		s.reflectNotifies(s.out())
	}
	s.out()
	for i := range c.Ups {
		u := &c.Ups[i]
		if !u.Persist {
			continue
		}
		line := MirrorLine{Path: "mirror", U: u, Ci: ci}
		line.Pre = ad.abs(s.srv.DataCopy(ad.fn()))
		line.MPre = ad.abs(s.rsrv.DataCopy(ad.fn()))
		func() {
			defer func() {
				if r := recover(); r != nil {
					line.Panic = fmt.Sprint(r)
				}
			}()
			var out []model.DatagramType
			if u.Remote {
				line.Api = "write"
				ctr := s.send(model.CmdClassifierTypeWrite, s.paddr(1, 1), s.srv.Address(), true, nil, s.cmdFor(u))
				out = s.out()
				line.Ok = resultFor(out, ctr) == 1
			} else {
				fp, fd := buildFilters(ad, u)
				if fp == nil && fd == nil && i%2 == 0 {
					line.Api = "setdata"
					s.srv.SetData(ad.fn(), ad.mk(u.Data))
					line.Ok = true
				} else {
					line.Api = "update"
					line.Ok = s.srv.UpdateData(ad.fn(), ad.mk(u.Data), fp, fd) == nil
				}
				out = s.out()
			}
			line.NNotif = s.reflectNotifies(out)
		}()
		line.Store = ad.abs(s.srv.DataCopy(ad.fn()))
		line.Mirror = ad.abs(s.rsrv.DataCopy(ad.fn()))
		must(enc.Encode(line))
		steps++
	}
	return
}

func listMirror(args []string) {
	fs := flag.NewFlagSet("list-mirror", flag.ExitOnError)
	inF := fs.String("in", "", "cases ndjson")
	outF := fs.String("out", "", "trace ndjson")
	typ := fs.String("type", "limit", "limit | setpoint | ecparam")
	must(fs.Parse(args))
	if _, ok := listAdapters[*typ]; !ok {
		must(fmt.Errorf("unknown list type %s", *typ))
	}
	in, err := os.Open(*inF)
	must(err)
	defer in.Close()
	out, err := os.Create(*outF)
	must(err)
	defer out.Close()
	w := bufio.NewWriterSize(out, 1<<20)
	defer w.Flush()
	enc := json.NewEncoder(w)
	sc := bufio.NewScanner(in)
	sc.Buffer(make([]byte, 1<<20), 1<<26)
	nb, ns := 0, 0
	for sc.Scan() {
		var c ListCase
		must(json.Unmarshal(sc.Bytes(), &c))
		s := newE2E(*typ)
		ns += s.mirrorCase(c, nb, enc)
		s.close()
		nb++
	}
	fmt.Printf("{\"behaviours\": %d, \"steps\": %d}\n", nb, ns)
}
