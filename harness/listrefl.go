package main

// Reflective adapter: every registered list function whose element type has unsigned-integer key fields is mapped
// onto the abstract item [k, v, w, chg] of spec/ListData.tla (one or two key fields vary, further key fields are
// held constant; v, w = the first two non-key fields a value can be put into; chg = the field tagged writecheck).

import (
	"encoding/json"
	"fmt"
	"reflect"
	"sort"
	"strconv"
	"strings"

	"github.com/enbility/spine-go/api"
	"github.com/enbility/spine-go/model"
	"github.com/enbility/spine-go/spine"
)

type reflInfo struct {
	Fn        string   `json:"fn"`
	ListType  string   `json:"list_type"`
	ElemType  string   `json:"elem_type"`
	Keys      []string `json:"keys"`
	ConstKeys []string `json:"const_keys"`
	Flag      string   `json:"flag"`
	V         string   `json:"v"`
	W         string   `json:"w"`
	ElemsOK   bool     `json:"elems_mirror"` // the elements type has the same fields as the element type
	Usable    bool     `json:"usable"`
	Why       string   `json:"why"`
	NKeys     int      `json:"nkeys"`
}

func cmdFieldType(fn model.FunctionType) reflect.Type {
	t := reflect.TypeOf(model.CmdType{})
	for i := 0; i < t.NumField(); i++ {
		sf := t.Field(i)
		if tags := model.EEBusTags(sf); tags[model.EEBusTagFunction] == string(fn) && sf.Type.Kind() == reflect.Ptr {
			return sf.Type.Elem()
		}
	}
	return nil
}

func filterFieldType(fn model.FunctionType, typ string) reflect.Type {
	t := reflect.TypeOf(model.FilterType{})
	for i := 0; i < t.NumField(); i++ {
		sf := t.Field(i)
		tags := model.EEBusTags(sf)
		if tags[model.EEBusTagFunction] == string(fn) && tags[model.EEBusTagType] == typ && sf.Type.Kind() == reflect.Ptr {
			return sf.Type.Elem()
		}
	}
	return nil
}

// fillValue builds a value of type t that encodes v (1, 2, ...); ok = false if the type cannot carry one
func fillValue(t reflect.Type, v int, depth int) (reflect.Value, bool) {
	switch t.Kind() {
	case reflect.Ptr:
		inner, ok := fillValue(t.Elem(), v, depth)
		if !ok {
			return reflect.Value{}, false
		}
		p := reflect.New(t.Elem())
		p.Elem().Set(inner)
		return p, true
	case reflect.Uint, reflect.Uint8, reflect.Uint16, reflect.Uint32, reflect.Uint64:
		x := reflect.New(t).Elem()
		x.SetUint(uint64(v))
		return x, true
	case reflect.Int, reflect.Int8, reflect.Int16, reflect.Int32, reflect.Int64:
		x := reflect.New(t).Elem()
		x.SetInt(int64(v))
		return x, true
	case reflect.Float32, reflect.Float64:
		x := reflect.New(t).Elem()
		x.SetFloat(float64(v))
		return x, true
	case reflect.String:
		x := reflect.New(t).Elem()
		x.SetString("s" + strconv.Itoa(v))
		return x, true
	case reflect.Bool:
		x := reflect.New(t).Elem()
		x.SetBool(v == 1)
		return x, true
	case reflect.Struct:
		if depth > 3 {
			return reflect.Value{}, false
		}
		x := reflect.New(t).Elem()
		for i := 0; i < t.NumField(); i++ {
			if !x.Field(i).CanSet() {
				continue
			}
			if fv, ok := fillValue(t.Field(i).Type, v, depth+1); ok {
				x.Field(i).Set(fv)
				return x, true
			}
		}
		return reflect.Value{}, false
	case reflect.Slice:
		ev, ok := fillValue(t.Elem(), v, depth+1)
		if !ok {
			return reflect.Value{}, false
		}
		s := reflect.MakeSlice(t, 1, 1)
		s.Index(0).Set(ev)
		return s, true
	}
	return reflect.Value{}, false
}

// readValue is the inverse of fillValue (0 = absent)
func readValue(val reflect.Value) int {
	switch val.Kind() {
	case reflect.Ptr:
		if val.IsNil() {
			return 0
		}
		return readValue(val.Elem())
	case reflect.Uint, reflect.Uint8, reflect.Uint16, reflect.Uint32, reflect.Uint64:
		return int(val.Uint())
	case reflect.Int, reflect.Int8, reflect.Int16, reflect.Int32, reflect.Int64:
		return int(val.Int())
	case reflect.Float32, reflect.Float64:
		return int(val.Float())
	case reflect.String:
		n, err := strconv.Atoi(strings.TrimPrefix(val.String(), "s"))
		if err != nil {
			return -1
		}
		return n
	case reflect.Bool:
		if val.Bool() {
			return 1
		}
		return 2
	case reflect.Struct:
		for i := 0; i < val.NumField(); i++ {
			if _, ok := fillValue(val.Type().Field(i).Type, 1, 1); ok && val.Field(i).CanSet() {
				return readValue(val.Field(i))
			}
		}
		return -1
	case reflect.Slice:
		if val.Len() == 0 {
			return 0
		}
		return readValue(val.Index(0))
	}
	return -1
}

type reflAd struct {
	info      reflInfo
	fnT       model.FunctionType
	lt, et    reflect.Type
	listField int
	keyIdx    []int
	constIdx  []int
	flagIdx   int
	vIdx      int
	wIdx      int
	selT, elT reflect.Type
}

func isUintPtr(t reflect.Type) bool {
	if t.Kind() != reflect.Ptr {
		return false
	}
	switch t.Elem().Kind() {
	case reflect.Uint, reflect.Uint8, reflect.Uint16, reflect.Uint32, reflect.Uint64:
		return true
	}
	return false
}

func newReflAd(fd api.FunctionDataInterface) (*reflAd, reflInfo) {
	fn := fd.FunctionType()
	ad := &reflAd{fnT: fn, flagIdx: -1, vIdx: -1, wIdx: -1, listField: -1}
	inf := reflInfo{Fn: string(fn), Keys: []string{}, ConstKeys: []string{}}
	fail := func(why string) (*reflAd, reflInfo) {
		inf.Why = why
		return nil, inf
	}
	ad.lt = cmdFieldType(fn)
	if ad.lt == nil {
		return fail("no cmd field")
	}
	inf.ListType = ad.lt.Name()
	if !fd.SupportsPartialWrite() {
		return fail("no partial update support (not a list function)")
	}
	n := 0
	for i := 0; i < ad.lt.NumField(); i++ {
		if f := ad.lt.Field(i); f.Type.Kind() == reflect.Slice && f.Type.Elem().Kind() == reflect.Struct {
			ad.et, ad.listField = f.Type.Elem(), i
			n++
		}
	}
	if n != 1 {
		return fail(fmt.Sprintf("%d list fields", n))
	}
	inf.ElemType = ad.et.Name()
	ad.selT = filterFieldType(fn, string(model.EEBusTagTypeTypeSelector))
	ad.elT = filterFieldType(fn, string(model.EEbusTagTypeTypeElements))
	if ad.selT == nil || ad.elT == nil {
		return fail("no selectors / elements type in the filter")
	}
	nonUintKey := false
	for i := 0; i < ad.et.NumField(); i++ {
		sf := ad.et.Field(i)
		tags := model.EEBusTags(sf)
		_, isKey := tags[model.EEBusTagKey]
		_, isFlag := tags[model.EEBusTagWriteCheck]
		_, fillable := fillValue(sf.Type, 1, 0)
		switch {
		case isKey:
			selF, inSel := ad.selT.FieldByName(sf.Name)
			if !isUintPtr(sf.Type) {
				if !fillable {
					nonUintKey = true
				}
				// a non-numeric key field is held constant
				ad.constIdx = append(ad.constIdx, i)
				inf.ConstKeys = append(inf.ConstKeys, sf.Name)
			} else if len(ad.keyIdx) < 2 && inSel && selF.Type == sf.Type {
				ad.keyIdx = append(ad.keyIdx, i)
				inf.Keys = append(inf.Keys, sf.Name)
			} else {
				ad.constIdx = append(ad.constIdx, i)
				inf.ConstKeys = append(inf.ConstKeys, sf.Name)
			}
		case isFlag:
			ad.flagIdx = i
			inf.Flag = sf.Name
		case fillable && (sf.Type.Kind() == reflect.Ptr || sf.Type.Kind() == reflect.Slice) && ad.vIdx < 0:
			ad.vIdx = i
			inf.V = sf.Name
		case fillable && (sf.Type.Kind() == reflect.Ptr || sf.Type.Kind() == reflect.Slice) && ad.wIdx < 0:
			ad.wIdx = i
			inf.W = sf.Name
		}
	}
	inf.NKeys = len(ad.keyIdx)
	inf.ElemsOK = ad.elT.NumField() == ad.et.NumField()
	switch {
	case nonUintKey:
		return fail("a key field is a structure no constant can be put into")
	case len(ad.keyIdx) == 0:
		return fail("no unsigned-integer key field that the selectors type can address")
	case ad.vIdx < 0:
		return fail("no value field besides the keys")
	}
	for _, i := range []int{ad.vIdx, ad.wIdx} {
		if i >= 0 {
			if f, ok := ad.elT.FieldByName(ad.et.Field(i).Name); !ok || f.Type.Kind() != reflect.Ptr {
				return fail("the elements type has no field " + ad.et.Field(i).Name)
			}
		}
	}
	inf.Usable = true
	ad.info = inf
	return ad, inf
}

func (a *reflAd) fn() model.FunctionType { return a.fnT }
func (a *reflAd) newFD() api.FunctionDataInterface {
	for _, fd := range spine.CreateFunctionData[api.FunctionDataInterface](model.FeatureTypeTypeGeneric) {
		if fd.FunctionType() == a.fnT {
			return fd
		}
	}
	panic("no function data for " + string(a.fnT))
}
func (a *reflAd) mk(items []AbsItem) any {
	lp := reflect.New(a.lt)
	if len(items) == 0 {
		return lp.Interface()
	}
	sl := reflect.MakeSlice(a.lt.Field(a.listField).Type, 0, len(items))
	for _, it := range items {
		e := reflect.New(a.et).Elem()
		set := func(idx, v int) {
			if idx >= 0 && v != 0 {
				fv, _ := fillValue(a.et.Field(idx).Type, v, 0)
				e.Field(idx).Set(fv)
			}
		}
		for i, idx := range a.keyIdx {
			set(idx, it.K[i])
		}
		if it.K[0] != 0 {
			for _, idx := range a.constIdx {
				set(idx, 1)
			}
		}
		set(a.vIdx, it.V)
		set(a.wIdx, it.W)
		if a.flagIdx >= 0 {
			if b := chgPtr(it.Chg); b != nil {
				e.Field(a.flagIdx).Set(reflect.ValueOf(b))
			}
		}
		sl = reflect.Append(sl, e)
	}
	lp.Elem().Field(a.listField).Set(sl)
	return lp.Interface()
}
func (a *reflAd) absSlice(sl reflect.Value) []AbsItem {
	r := []AbsItem{}
	for j := 0; j < sl.Len(); j++ {
		e := sl.Index(j)
		it := AbsItem{K: make([]int, len(a.keyIdx)), Chg: "nil"}
		for i, idx := range a.keyIdx {
			it.K[i] = readValue(e.Field(idx))
		}
		it.V = readValue(e.Field(a.vIdx))
		if a.wIdx >= 0 {
			it.W = readValue(e.Field(a.wIdx))
		}
		if a.flagIdx >= 0 {
			if f := e.Field(a.flagIdx); !f.IsNil() {
				it.Chg = chgStr(ptr(f.Elem().Bool()))
			}
		}
		r = append(r, it)
	}
	return r
}
func (a *reflAd) abs(d any) []AbsItem {
	if d == nil || isNilIface(d) {
		return []AbsItem{}
	}
	v := reflect.ValueOf(d)
	if v.Kind() == reflect.Slice {
		return a.absSlice(v)
	}
	if v.Kind() != reflect.Ptr || v.Elem().Type() != a.lt {
		return []AbsItem{}
	}
	return a.absSlice(v.Elem().Field(a.listField))
}
func (a *reflAd) selector(k []int) any {
	s := reflect.New(a.selT)
	for i, idx := range a.keyIdx {
		if i < len(k) && k[i] != 0 {
			f := s.Elem().FieldByName(a.et.Field(idx).Name)
			fv, _ := fillValue(f.Type(), k[i], 0)
			f.Set(fv)
		}
	}
	return s.Interface()
}
func (a *reflAd) elements(fs []string) any {
	e := reflect.New(a.elT)
	for _, x := range []struct {
		n   string
		idx int
	}{{"v", a.vIdx}, {"w", a.wIdx}} {
		if has(fs, x.n) && x.idx >= 0 {
			f := e.Elem().FieldByName(a.et.Field(x.idx).Name)
			f.Set(reflect.New(f.Type().Elem()))
		}
	}
	return e.Interface()
}

func allFunctionData() []api.FunctionDataInterface {
	r := spine.CreateFunctionData[api.FunctionDataInterface](model.FeatureTypeTypeGeneric)
	sort.Slice(r, func(i, j int) bool { return r[i].FunctionType() < r[j].FunctionType() })
	return r
}

// reflective adapters by function name
func reflAdapters() (map[string]*reflAd, []reflInfo) {
	m := map[string]*reflAd{}
	var infos []reflInfo
	for _, fd := range allFunctionData() {
		ad, inf := newReflAd(fd)
		if ad != nil {
			m[string(fd.FunctionType())] = ad
		}
		infos = append(infos, inf)
	}
	return m, infos
}

func listSurvey(args []string) {
	_, infos := reflAdapters()
	b, _ := json.Marshal(infos)
	fmt.Println(string(b))
}
