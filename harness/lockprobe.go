package main

// C17 (completion half): lock-order probes and free-running stress on the real stack.
// Probe (holder, hook, other): the holder operation is parked at a hook point where it holds one of the stack's
// mutexes; the other operation is started and either completes or blocks; then the holder is released; both must
// complete, and afterwards the registries and the teardown must still work.

import (
	"encoding/json"
	"flag"
	"fmt"
	"math/rand"
	"os"
	"runtime"
	"strings"
	"sync"
	"time"

	"github.com/enbility/spine-go/api"
	"github.com/enbility/spine-go/model"
	"github.com/enbility/spine-go/spine"
)

type LockLine struct {
	Kind      string `json:"kind"`
	Holder    string `json:"holder"`
	Hook      string `json:"hook"`
	Other     string `json:"other"`
	Parked    bool   `json:"parked"`    // the holder reached its hook
	Blocked   bool   `json:"blocked"`   // the other operation did not complete while the holder was parked
	Completed bool   `json:"completed"` // both completed after the holder was released
	After     bool   `json:"after"`     // follow-up calls on the registries and the teardown completed
	Panic     string `json:"panic"`
	Calls     int    `json:"calls"`
}

type lockSUT struct {
	s       *System
	ent3    *spine.EntityLocal
	hbEnt   *spine.EntityLocal
	pending *api.Message
	mu      sync.Mutex
	n       int
}

func newLockSUT(topo *Topo, withApproval bool) *lockSUT {
	s := NewSystem(topo)
	l := &lockSUT{s: s}
	for _, pn := range s.topo.Peers {
		s.step(Action{"a": "connect", "p": pn})
		s.step(Action{"a": "discover", "p": pn, "ents": []any{"1", "2"}, "ack": false})
	}
	s.step(Action{"a": "sub", "p": "p2", "c": "c11", "s": "S2", "ft": "LoadControl", "ack": false})
	s.step(Action{"a": "sub", "p": "p2", "c": "nm", "s": "NM", "ft": "NodeManagement", "ack": false})
	s.step(Action{"a": "bind", "p": "p2", "c": "c13", "s": "S3", "ft": "DeviceConfiguration", "ack": false})
	s.step(Action{"a": "bind", "p": "p1", "c": "c11", "s": "S1", "ft": "LoadControl", "ack": false})
	s.step(Action{"a": "sub", "p": "p1", "c": "c12", "s": "S1", "ft": "LoadControl", "ack": false})
	s.step(Action{"a": "lsub", "k": "K1", "p": "p2", "r": "s14"})
	// the first peer has a fourth entity (the nested [1,1]) and subscriptions from three of its entities
	s.step(Action{"a": "ann", "p": "p1", "kind": "partial", "dev": "own", "ack": false,
		"items": []any{map[string]any{"e": "1.1", "chg": "added", "fs": []any{"n11"}, "v": float64(1)}}})
	s.step(Action{"a": "sub", "p": "p1", "c": "c21", "s": "S2", "ft": "LoadControl", "ack": false})
	s.step(Action{"a": "sub", "p": "p1", "c": "n11", "s": "S4", "ft": "LoadControl", "ack": false})
	l.ent3 = spine.NewEntityLocal(s.dev, model.EntityTypeTypeCEM, entAddr("3"), 0)
	l.ent3.GetOrAddFeature(model.FeatureTypeTypeMeasurement, model.RoleTypeServer)
	l.hbEnt = spine.NewEntityLocal(s.dev, model.EntityTypeTypeCEM, entAddr("5"), time.Hour)
	hf := l.hbEnt.GetOrAddFeature(model.FeatureTypeTypeDeviceDiagnosis, model.RoleTypeServer)
	s.dev.AddEntity(l.hbEnt)
	hf.AddFunctionType(model.FunctionTypeDeviceDiagnosisHeartbeatData, true, false)
	if withApproval {
		_ = s.lfeat["S1"].AddWriteApprovalCallback(func(msg *api.Message) {
			l.mu.Lock()
			l.pending = msg
			l.mu.Unlock()
		})
		s.lfeat["S1"].SetWriteApprovalTimeout(time.Hour)
		p := s.peers["p1"]
		s.exec(Action{"a": "write", "p": "p1", "c": "c11", "s": "S1", "fn": "limit", "v": float64(2), "ack": true}, p, &TraceLine{})
		for i := 0; i < 2000; i++ {
			l.mu.Lock()
			ok := l.pending != nil
			l.mu.Unlock()
			if ok {
				break
			}
			time.Sleep(50 * time.Microsecond)
		}
	}
	for _, p := range s.peers {
		p.w.drain()
	}
	s.drainEvents()
	return l
}

// the operations; each is safe to call concurrently with the others (from the harness' point of view)
var lockOps = []string{"bindreq", "subreq", "unsub", "unbindforeign", "unbind", "disconnect", "entrem", "entadd", "addentity", "rementity", "setdata", "write", "discread",
	"usecase", "lsub", "lunsub", "hbstart", "hbstop", "reply", "publish", "listbinds", "request", "verdict"}

func (l *lockSUT) run(op string, peer string) {
	s := l.s
	p := s.peers[peer]
	l.mu.Lock()
	l.n++
	k := l.n
	l.mu.Unlock()
	inj := func(a Action) {
		defer func() { _ = recover() }() // a connection that is being torn down concurrently has no reader: not an error of the stack
		s.execConc(a, p)
	}
	switch op {
	case "bindreq":
		inj(Action{"a": "bind", "p": peer, "c": "c12", "s": "S2", "ft": "LoadControl", "ack": true})
	case "subreq":
		inj(Action{"a": "sub", "p": peer, "c": "c21", "s": "S1", "ft": "LoadControl", "ack": true})
	case "unsub":
		inj(Action{"a": "unsub", "p": peer, "c": "c21", "s": "S1", "ack": true})
	case "unbind":
		inj(Action{"a": "unbind", "p": peer, "c": "c12", "s": "S2", "ack": true})
	case "unbindforeign":
		// a delete whose client address names another device (the feature lookup ignores the device part)
		ca := s.remoteAddr(p, "c13")
		other := model.AddressDeviceType("d:somebody-else")
		ca.Device = &other
		if peer == "p1" {
			ca = s.remoteAddr(p, "c11")
			ca.Device = &other
		}
		srv := "S3"
		if peer == "p1" {
			srv = "S1"
		}
		cmd := model.CmdType{NodeManagementBindingDeleteCall: spine.NewNodeManagementBindingDeleteCallType(ca, s.localAddr(srv))}
		func() {
			defer func() { _ = recover() }()
			s.injectConc(p, model.CmdClassifierTypeCall, s.remoteAddr(p, "nm"), s.nmLocal(), true, nil, cmd)
		}()
	case "disconnect":
		s.connMu.Lock()
		s.dev.RemoveRemoteDeviceConnection(p.ski)
		p.reader = s.dev.SetupRemoteDevice(p.ski, p.w)
		s.connMu.Unlock()
		inj(Action{"a": "discover", "p": peer, "ents": []any{"1", "2"}, "ack": false})
	case "entrem":
		inj(Action{"a": "entrem", "p": peer, "e": "2", "ack": true})
	case "entadd":
		inj(Action{"a": "entadd", "p": peer, "e": "2", "ack": true})
	case "addentity":
		if s.dev.Entity(entAddr("3")) == nil {
			s.dev.AddEntity(l.ent3)
		}
	case "rementity":
		s.dev.RemoveEntity(l.ent3)
	case "setdata":
		s.lfeat["S2"].SetData(fnMap["limit"], mkData("limit", 1+k%3))
	case "write":
		if peer == "p1" {
			inj(Action{"a": "write", "p": peer, "c": "c11", "s": "S1", "fn": "limit", "v": float64(1 + k%3), "ack": true})
		} else {
			inj(Action{"a": "write", "p": peer, "c": "c13", "s": "S3", "fn": "kv", "v": float64(1 + k%3), "ack": true})
		}
	case "discread":
		func() {
			defer func() { _ = recover() }()
			s.injectConc(p, model.CmdClassifierTypeRead, s.remoteAddr(p, "nm"), s.nmLocal(), false, nil, model.CmdType{NodeManagementDetailedDiscoveryData: &model.NodeManagementDetailedDiscoveryDataType{}})
		}()
	case "usecase":
		s.lents["2"].AddUseCaseSupport("CEM", model.UseCaseNameType(fmt.Sprintf("uc%d", k%3)), "1.0.0", "r", true, []model.UseCaseScenarioSupportType{1})
	case "lsub":
		_, _ = s.lfeat["K1"].SubscribeToRemote(s.remoteAddr(p, "s14"))
	case "lunsub":
		_, _ = s.lfeat["K1"].RemoveRemoteSubscription(s.remoteAddr(p, "s14"))
	case "hbstart":
		_ = l.hbEnt.HeartbeatManager().StartHeartbeat()
	case "hbstop":
		l.hbEnt.HeartbeatManager().StopHeartbeat()
	case "reply":
		inj(Action{"a": "recv", "p": peer, "cls": "reply", "c": "s14", "s": "K1", "pl": "limit", "v": float64(1 + k%3), "ack": false, "ref": float64(0)})
	case "publish":
		spine.Events.Publish(api.EventPayload{Ski: "probe", EventType: api.EventTypeDataChange})
	case "listbinds":
		inj(Action{"a": "listbinds", "p": peer, "ack": true})
	case "request":
		rd := s.dev.RemoteDeviceForSki(p.ski)
		if rd != nil {
			if rf := rd.FeatureByAddress(s.remoteAddr(p, "s14")); rf != nil && !isNilIface(rf) {
				_, _ = s.lfeat["K1"].RequestRemoteData(fnMap["limit"], nil, nil, rf)
			}
		}
	case "verdict":
		l.mu.Lock()
		msg := l.pending
		l.mu.Unlock()
		if msg != nil {
			s.lfeat["S1"].ApproveOrDenyWrite(msg, model.ErrorType{ErrorNumber: 0})
		}
	default:
		panic("lock op " + op)
	}
}

var lockHolders = []struct{ Op, Hook string }{
	{"bindreq", "AddBinding.inserted"}, {"subreq", "AddSubscription.inserted"}, {"subreq", "Events.snapshot"}, {"bindreq", "Events.snapshot"},
	{"verdict", "ApproveOrDenyWrite.afterStop"}, {"verdict", "Events.snapshot"}, {"usecase", "UseCase.beforeStore"}, {"hbstart", "StartHeartbeat.afterMake"},
	{"disconnect", "Events.snapshot"}, {"entrem", "Events.snapshot"}, {"write", "Events.snapshot"}, {"reply", "Events.snapshot"},
	// inside the removals, right after the filtered registry was stored (the registry lock is held there), and in the
	// local tree operations (behind the entity's clean-up; between insertion and announcement)
	{"unbind", "RemoveBinding.stored"}, {"unsub", "RemoveSubscription.stored"}, {"disconnect", "RemoveBindingsForEntity.stored"},
	{"entrem", "RemoveSubscriptionsForEntity.stored"}, {"rementity", "RemoveEntity.cleaned"}, {"addentity", "AddEntity.appended"},
}

func waitDone(c chan string, d time.Duration) (string, bool) {
	select {
	case v := <-c:
		return v, true
	case <-time.After(d):
		return "", false
	}
}

func lockProbe(args []string) {
	fs := flag.NewFlagSet("lock-probe", flag.ExitOnError)
	topoF := fs.String("topo", "", "")
	outF := fs.String("out", "", "")
	shardI := fs.Int("shard", 0, "")
	shardN := fs.Int("shards", 1, "")
	seed := fs.Int64("seed", 1, "")
	stress := fs.Int("stress", 3, "free-running rounds in this shard")
	must(fs.Parse(args))
	tb, err := os.ReadFile(*topoF)
	must(err)
	topo, err := parseTopo(tb)
	must(err)
	out, err := os.Create(*outF)
	must(err)
	defer out.Close()
	enc := json.NewEncoder(out)
	idx := 0
	for _, h := range lockHolders {
		for _, o := range lockOps {
			idx++
			if idx%*shardN != *shardI {
				continue
			}
			line := probeOne(topo, h.Op, h.Hook, o)
			must(enc.Encode(line))
			if !line.Completed || !line.After {
				// a blocked Publish holds the process-global event bus: nothing after it in this process can be trusted
				out.Close()
				os.Exit(0)
			}
		}
	}
	for _, sc := range reentryScenarios {
		idx++
		if idx%*shardN != *shardI {
			continue
		}
		line := reentryOne(topo, sc)
		must(enc.Encode(line))
		if !line.Completed || !line.After {
			out.Close()
			os.Exit(0)
		}
	}
	for r := 0; r < *stress; r++ {
		line := stressOne(topo, *seed*1000+int64(*shardI*100+r))
		must(enc.Encode(line))
		if !line.Completed || !line.After {
			out.Close()
			os.Exit(0)
		}
	}
}

func guarded(f func()) chan string {
	c := make(chan string, 1)
	go func() {
		defer func() {
			if r := recover(); r != nil {
				c <- fmt.Sprint(r) + " @ " + topFrame(debugStack())
				return
			}
			c <- ""
		}()
		f()
	}()
	return c
}

func probeOne(topo *Topo, holder, hook, other string) LockLine {
	line := LockLine{Kind: "probe", Holder: holder, Hook: hook, Other: other}
	l := newLockSUT(topo, holder == "verdict" || other == "verdict")
	sched := NewSched()
	sched.watchdog = 150 * time.Millisecond
	sched.Add("H", []string{hook}, func() { l.run(holder, "p1") })
	at, ok := sched.Step("H")
	line.Parked = ok && at == hook
	oc := guarded(func() { l.run(other, "p2") })
	pv, done := waitDone(oc, 120*time.Millisecond)
	line.Blocked = !done
	if pv != "" {
		line.Panic = pv
	}
	// release the holder (and whatever it reaches again)
	for i := 0; i < 6; i++ {
		if sp := sched.procs["H"]; sp.done {
			break
		}
		sched.Step("H")
	}
	hDone := sched.Drain()
	if sp := sched.procs["H"]; sp.panicV != "" {
		line.Panic = "holder: " + sp.panicV
	}
	oDone := done
	if !done {
		pv, oDone = waitDone(oc, 2*time.Second)
		if pv != "" {
			line.Panic = pv
		}
	}
	sched.Close()
	line.Completed = hDone && oDone
	if line.Completed {
		ac := guarded(func() {
			l.run("listbinds", "p1")
			l.run("bindreq", "p1")
			l.run("subreq", "p2")
			l.run("discread", "p2")
			l.hbEnt.HeartbeatManager().StopHeartbeat()
			l.s.Close()
		})
		pv, ok := waitDone(ac, 3*time.Second)
		line.After = ok
		if pv != "" {
			line.Panic = "afterwards: " + pv
		}
	}
	return line
}

func stressOne(topo *Topo, seed int64) LockLine {
	line := LockLine{Kind: "stress"}
	spine.VerifTraceMark(fmt.Sprint("stress ", seed))
	l := newLockSUT(topo, false)
	var wg sync.WaitGroup
	var mu sync.Mutex
	ops := []string{"bindreq", "subreq", "unsub", "unbind", "unbindforeign", "disconnect", "entrem", "entadd", "addentity", "rementity", "setdata", "write", "discread",
		"usecase", "lsub", "lunsub", "hbstart", "hbstop", "reply", "publish", "listbinds", "request"}
	calls := 0
	for g := 0; g < 12; g++ {
		wg.Add(1)
		go func(g int) {
			defer wg.Done()
			rnd := rand.New(rand.NewSource(seed*31 + int64(g)))
			for i := 0; i < 60; i++ {
				op := ops[rnd.Intn(len(ops))]
				peer := []string{"p1", "p2"}[rnd.Intn(2)]
				func() {
					defer func() {
						if r := recover(); r != nil {
							mu.Lock()
							line.Panic = fmt.Sprint(r) + " @ " + topFrame(debugStack()) + " in " + op
							mu.Unlock()
						}
					}()
					l.run(op, peer)
				}()
				mu.Lock()
				calls++
				mu.Unlock()
			}
		}(g)
	}
	dc := make(chan struct{})
	go func() { wg.Wait(); close(dc) }()
	select {
	case <-dc:
		line.Completed = true
	case <-time.After(20 * time.Second):
		line.Completed = false
		buf := make([]byte, 1<<16)
		n := runtime.Stack(buf, true)
		_ = n
	}
	line.Calls = calls
	if line.Completed {
		ac := guarded(func() {
			l.run("listbinds", "p1")
			l.run("discread", "p2")
			l.hbEnt.HeartbeatManager().StopHeartbeat()
			l.s.Close()
		})
		_, ok := waitDone(ac, 3*time.Second)
		line.After = ok
	}
	return line
}

// ---- pair probes with a functional verdict: the final state must be that of a serial order (spec/PairTrace.tla) ----

type PairLine struct {
	Holder    string    `json:"holder"`
	Hook      string    `json:"hook"`
	A         Action    `json:"a"`
	B         Action    `json:"b"`
	Pre       *AbsState `json:"pre"`
	Post      *AbsState `json:"post"`
	Parked    bool      `json:"parked"`
	Blocked   bool      `json:"blocked"`
	Completed bool      `json:"completed"`
	Panic     string    `json:"panic"`
}

func pairProbe(args []string) {
	fs := flag.NewFlagSet("pair-probe", flag.ExitOnError)
	topoF := fs.String("topo", "", "")
	outF := fs.String("out", "", "")
	shardI := fs.Int("shard", 0, "")
	shardN := fs.Int("shards", 1, "")
	kinds := fs.String("kinds", "", "comma separated holder operations (empty = all)")
	must(fs.Parse(args))
	tb, err := os.ReadFile(*topoF)
	must(err)
	topo, err := parseTopo(tb)
	must(err)
	out, err := os.Create(*outF)
	must(err)
	defer out.Close()
	enc := json.NewEncoder(out)
	B := func(p, c, s, ft string) Action {
		return Action{"a": "bind", "p": p, "c": c, "s": s, "ft": ft, "dev": "own", "sdev": "own", "ack": true}
	}
	S := func(p, c, s, ft string) Action {
		return Action{"a": "sub", "p": p, "c": c, "s": s, "ft": ft, "dev": "own", "sdev": "own", "ack": true}
	}
	holders := []struct {
		A    Action
		Hook string
		Skip int // further arrivals at the hook before the other operation runs (parked deeper inside the loop)
	}{
		{Action{"a": "disconnect", "p": "p1"}, "Events.snapshot", 0},
		{Action{"a": "entrem", "p": "p1", "e": "1", "dev": "own", "ack": true}, "Events.snapshot", 0},
		{S("p1", "c21", "S2", "LoadControl"), "AddSubscription.inserted", 0},
		{S("p1", "c21", "S2", "LoadControl"), "Events.snapshot", 0},
		{B("p1", "c12", "S2", "LoadControl"), "AddBinding.inserted", 0},
		{B("p1", "c12", "S2", "LoadControl"), "AddBinding.afterCheck", 0},
		{Action{"a": "unsub", "p": "p1", "c": "c12", "s": "S1", "dev": "own", "sdev": "own", "ack": true}, "Events.snapshot", 0},
		{Action{"a": "unbind", "p": "p1", "c": "c11", "s": "S1", "dev": "own", "sdev": "own", "ack": true}, "Events.snapshot", 0},
		// parked while scanning the registry (inside the loop of the read-modify-write)
		{Action{"a": "unbind", "p": "p1", "c": "c11", "s": "S1", "dev": "own", "sdev": "own", "ack": true}, "RemoveBinding.scan", 0},
		{Action{"a": "unsub", "p": "p1", "c": "c12", "s": "S1", "dev": "own", "sdev": "own", "ack": true}, "RemoveSubscription.scan", 0},
		{Action{"a": "entrem", "p": "p1", "e": "1", "dev": "own", "ack": true}, "RemoveBindingsForEntity.scan", 0},
		{Action{"a": "entrem", "p": "p1", "e": "1", "dev": "own", "ack": true}, "RemoveSubscriptionsForEntity.scan", 0},
		{Action{"a": "disconnect", "p": "p1"}, "RemoveBindingsForEntity.scan", 0},
		{Action{"a": "disconnect", "p": "p1"}, "RemoveSubscriptionsForEntity.scan", 0},
		// ... parked while the teardown is at the second / third entity of the device
		{Action{"a": "disconnect", "p": "p1"}, "RemoveSubscriptionsForEntity.scan", 5},
		{Action{"a": "disconnect", "p": "p1"}, "RemoveSubscriptionsForEntity.scan", 10},
		{Action{"a": "disconnect", "p": "p1"}, "RemoveBindingsForEntity.scan", 2},
	}
	others := []Action{
		S("p2", "c21", "S2", "LoadControl"), S("p2", "c12", "S1", "LoadControl"), B("p2", "c12", "S2", "LoadControl"),
		Action{"a": "unsub", "p": "p2", "c": "c11", "s": "S2", "dev": "own", "sdev": "own", "ack": true},
		Action{"a": "unbind", "p": "p2", "c": "c13", "s": "S3", "dev": "own", "sdev": "own", "ack": true},
		Action{"a": "entrem", "p": "p2", "e": "1", "dev": "own", "ack": true}, Action{"a": "entrem", "p": "p2", "e": "2", "dev": "own", "ack": true},
		Action{"a": "disconnect", "p": "p2"},
		Action{"a": "lsub", "k": "K1", "p": "p1", "r": "s14"}, Action{"a": "lunsub", "k": "K1", "p": "p2", "r": "s14"},
		Action{"a": "setdata", "s": "S2", "fn": "limit", "v": float64(2)},
		Action{"a": "write", "p": "p2", "c": "c13", "s": "S3", "fn": "kv", "v": float64(2), "ack": true, "fel": "none", "ofn": "limit", "hdev": "own"},
		// the same peer's own messages, processed while its teardown / registry operation is parked
		// (removals only: a request of a peer that is processed while that very peer's connection is being removed can leave
		// a registry entry of a removed device behind - in-flight message against teardown, outside C10's quantifier)
		Action{"a": "entrem", "p": "p1", "e": "2", "dev": "own", "ack": true}, Action{"a": "entrem", "p": "p1", "e": "1", "dev": "own", "ack": true},
	}
	idx := 0
	for _, h := range holders {
		if *kinds != "" && !has(strings.Split(*kinds, ","), h.A.str("a")) {
			continue
		}
		for _, o := range others {
			idx++
			if idx%*shardN != *shardI {
				continue
			}
			line := PairLine{Holder: h.A.str("a"), Hook: h.Hook, A: h.A, B: o}
			l := newLockSUT(topo, false)
			s := l.s
			line.Pre = s.project()
			sched := NewSched()
			sched.watchdog = 150 * time.Millisecond
			ha, ob := h.A, o
			sched.Add("H", []string{h.Hook}, func() { s.pairExec(ha) })
			at, ok := sched.Step("H")
			for k := 0; k < h.Skip && ok && at == h.Hook; k++ {
				at, ok = sched.Step("H")
			}
			line.Parked = ok && at == h.Hook
			oc := guarded(func() { s.pairExec(ob) })
			pv, done := waitDone(oc, 120*time.Millisecond)
			line.Blocked = !done
			if pv != "" {
				line.Panic = pv
			}
			for i := 0; i < 40; i++ {
				if sp := sched.procs["H"]; sp.done {
					break
				}
				sched.Step("H")
			}
			hDone := sched.Drain()
			if sp := sched.procs["H"]; sp.panicV != "" {
				line.Panic = "holder: " + sp.panicV
			}
			if !done {
				pv, done = waitDone(oc, 2*time.Second)
				if pv != "" {
					line.Panic = pv
				}
			}
			sched.Close()
			line.Completed = hDone && done
			if line.Completed {
				line.Post = s.project()
			} else {
				line.Post = line.Pre
			}
			must(enc.Encode(line))
			if !line.Completed {
				out.Close()
				os.Exit(0)
			}
			l.hbEnt.HeartbeatManager().StopHeartbeat()
			s.Close()
		}
	}
}

// pairExec runs one SpineCore input without touching shared harness bookkeeping
func (s *System) pairExec(a Action) {
	p := s.peers[a.str("p")]
	switch a.str("a") {
	case "disconnect":
		s.dev.RemoveRemoteDeviceConnection(p.ski)
	case "setdata":
		s.lfeat[a.str("s")].SetData(fnMap[a.str("fn")], mkData(a.str("fn"), a.num("v")))
	case "lsub":
		_, _ = s.lfeat[a.str("k")].SubscribeToRemote(s.remoteAddr(p, a.str("r")))
	case "lunsub":
		_, _ = s.lfeat[a.str("k")].RemoveRemoteSubscription(s.remoteAddr(p, a.str("r")))
	default:
		s.execConc(a, p)
	}
}
