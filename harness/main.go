package main

import (
	"bufio"
	"encoding/json"
	"flag"
	"fmt"
	"github.com/enbility/spine-go/spine"
	"os"
	"runtime"
	"runtime/pprof"
	"strings"
	"time"
)

func usage() {
	fmt.Fprintln(os.Stderr, "usage: harness <core-replay> [flags]")
	os.Exit(2)
}

func main() {
	if len(os.Args) < 2 {
		usage()
	}
	cmd := os.Args[1]
	args := os.Args[2:]
	if pf := os.Getenv("VERIF_CPUPROFILE"); pf != "" {
		f, _ := os.Create(pf)
		_ = pprof.StartCPUProfile(f)
		defer pprof.StopCPUProfile()
	}
	switch cmd {
	case "core-replay":
		coreReplay(args)
	case "pair-probe":
		pairProbe(args)
	case "lock-probe":
		lockProbe(args)
	case "robust-templates":
		robustTemplatesCmd(args)
	case "robust-replay":
		robustReplay(args)
	case "cmd-run":
		cmdRun(args)
	case "conv-run":
		convRun(args)
	case "events-replay":
		eventsReplay(args)
	case "events-stress":
		eventsStress(args)
	case "hb-replay":
		hbReplay(args)
	case "approval-replay":
		approvalReplay(args)
	case "tree-replay":
		treeReplay(args)
	case "race-replay":
		raceReplay(args)
	case "list-replay":
		listReplay(args)
	case "list-mirror":
		listMirror(args)
	case "list-survey":
		listSurvey(args)
	case "list-e2e":
		listE2E(args)
	case "sender-replay":
		senderReplay(args)
	case "sender-gen":
		senderGen(args)
	case "sender-stress":
		senderStress(args)
	default:
		usage()
	}
}

func must(err error) {
	if err != nil {
		fmt.Fprintln(os.Stderr, "harness error:", err)
		os.Exit(2)
	}
}

// core-replay: executes behaviours (one JSON array of inputs per line) on fresh systems,
// writes one trace line per step, separated by reset lines.
func coreReplay(args []string) {
	fs := flag.NewFlagSet("core-replay", flag.ExitOnError)
	topoF := fs.String("topo", "", "topology json (printed by TLC)")
	inF := fs.String("in", "", "behaviours ndjson")
	outF := fs.String("out", "", "trace ndjson")
	must(fs.Parse(args))
	tb, err := os.ReadFile(*topoF)
	must(err)
	topo, err := parseTopo(tb)
	must(err)
	in, err := os.Open(*inF)
	must(err)
	defer in.Close()
	out, err := os.Create(*outF)
	must(err)
	defer out.Close()
	w := bufio.NewWriterSize(out, 1<<20)
	defer w.Flush()
	enc := json.NewEncoder(w)
	sc := bufio.NewScanner(in)
	sc.Buffer(make([]byte, 1<<20), 1<<26)
	nb, ns := 0, 0
	procBase := runtime.NumGoroutine()
	for sc.Scan() {
		var beh []Action
		if err := json.Unmarshal(sc.Bytes(), &beh); err != nil {
			must(fmt.Errorf("behaviour %d: %v", nb, err))
		}
		// (the goroutines of the previous behaviour's last step and teardown have ended before the baseline is taken)
		for i := 0; i < 20000 && runtime.NumGoroutine() > procBase; i++ {
			time.Sleep(50 * time.Microsecond)
		}
		spine.VerifTraceMark(fmt.Sprint(nb))
		s := NewSystem(topo)
		for _, a := range beh {
			if a.str("a") == "lreq" {
				s.needOffsets = true
			}
		}
		must(enc.Encode(map[string]any{"a": map[string]string{"a": "reset"}}))
		var prev *AbsState
		s.baseG++ // every step runs in a goroutine of its own (watchdog)
		for _, a := range beh {
			// a step that never returns (a deadlock in the stack) must not hang the check: it is reported as such and the
			// process ends (nothing after it in this process can be trusted)
			done := make(chan TraceLine, 1)
			go func() { done <- s.step(a) }()
			select {
			case line := <-done:
				must(enc.Encode(line))
				prev = line.St
				if strings.HasPrefix(line.Pan, "hang:") {
					w.Flush()
					fmt.Printf("{\"behaviours\": %d, \"steps\": %d, \"hung\": true}\n", nb+1, ns+1)
					os.Exit(0)
				}
			case <-time.After(30 * time.Second):
				line := TraceLine{A: a, Ret: "panic", Pan: "hang: the step did not return within 30 s (a call of the stack blocks forever)",
					Out: map[string][]AbsDg{}, Req: map[string][]AbsDg{}, Cbf: []CbFire{}, Ev: []AbsEvent{}, St: prev}
				for _, pn := range topo.Peers {
					line.Out[pn], line.Req[pn] = []AbsDg{}, []AbsDg{}
				}
				if line.St == nil {
					line.St = NewSystem(topo).project()
				}
				must(enc.Encode(line))
				w.Flush()
				fmt.Printf("{\"behaviours\": %d, \"steps\": %d, \"hung\": true}\n", nb+1, ns+1)
				os.Exit(0)
			}
			ns++
		}
		// the teardown as well
		closed := make(chan struct{})
		go func() { s.Close(); close(closed) }()
		select {
		case <-closed:
		case <-time.After(30 * time.Second):
			if prev != nil {
				line := TraceLine{A: Action{"a": "disconnect", "p": topo.Peers[0]}, Ret: "panic", Pan: "hang: the teardown did not return within 30 s",
					Out: map[string][]AbsDg{}, Req: map[string][]AbsDg{}, Cbf: []CbFire{}, Ev: []AbsEvent{}, St: prev}
				for _, pn := range topo.Peers {
					line.Out[pn], line.Req[pn] = []AbsDg{}, []AbsDg{}
				}
				must(enc.Encode(line))
			}
			w.Flush()
			fmt.Printf("{\"behaviours\": %d, \"steps\": %d, \"hung\": true}\n", nb+1, ns)
			os.Exit(0)
		}
		nb++
	}
	must(sc.Err())
	fmt.Printf("{\"behaviours\": %d, \"steps\": %d}\n", nb, ns)
}
