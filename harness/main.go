package main

import (
	"bufio"
	"encoding/json"
	"flag"
	"fmt"
	"os"
	"runtime/pprof"
)

func usage() {
	fmt.Fprintln(os.Stderr, "usage: harness <core-replay> [flags]")
	os.Exit(2)
}

func main() {
	if len(os.Args) < 2 {
		usage()
	}
	cmd := os.Args[1]
	args := os.Args[2:]
	if pf := os.Getenv("VERIF_CPUPROFILE"); pf != "" {
		f, _ := os.Create(pf)
		_ = pprof.StartCPUProfile(f)
		defer pprof.StopCPUProfile()
	}
	switch cmd {
	case "core-replay":
		coreReplay(args)
	case "pair-probe":
		pairProbe(args)
	case "lock-probe":
		lockProbe(args)
	case "robust-templates":
		robustTemplatesCmd(args)
	case "robust-replay":
		robustReplay(args)
	case "cmd-run":
		cmdRun(args)
	case "conv-run":
		convRun(args)
	case "events-replay":
		eventsReplay(args)
	case "events-stress":
		eventsStress(args)
	case "hb-replay":
		hbReplay(args)
	case "approval-replay":
		approvalReplay(args)
	case "tree-replay":
		treeReplay(args)
	case "race-replay":
		raceReplay(args)
	case "list-replay":
		listReplay(args)
	case "list-mirror":
		listMirror(args)
	case "list-survey":
		listSurvey(args)
	case "list-e2e":
		listE2E(args)
	case "sender-replay":
		senderReplay(args)
	case "sender-gen":
		senderGen(args)
	case "sender-stress":
		senderStress(args)
	default:
		usage()
	}
}

func must(err error) {
	if err != nil {
		fmt.Fprintln(os.Stderr, "harness error:", err)
		os.Exit(2)
	}
}

// core-replay: executes behaviours (one JSON array of inputs per line) on fresh systems,
// writes one trace line per step, separated by reset lines.
func coreReplay(args []string) {
	fs := flag.NewFlagSet("core-replay", flag.ExitOnError)
	topoF := fs.String("topo", "", "topology json (printed by TLC)")
	inF := fs.String("in", "", "behaviours ndjson")
	outF := fs.String("out", "", "trace ndjson")
	must(fs.Parse(args))
	tb, err := os.ReadFile(*topoF)
	must(err)
	topo, err := parseTopo(tb)
	must(err)
	in, err := os.Open(*inF)
	must(err)
	defer in.Close()
	out, err := os.Create(*outF)
	must(err)
	defer out.Close()
	w := bufio.NewWriterSize(out, 1<<20)
	defer w.Flush()
	enc := json.NewEncoder(w)
	sc := bufio.NewScanner(in)
	sc.Buffer(make([]byte, 1<<20), 1<<26)
	nb, ns := 0, 0
	for sc.Scan() {
		var beh []Action
		if err := json.Unmarshal(sc.Bytes(), &beh); err != nil {
			must(fmt.Errorf("behaviour %d: %v", nb, err))
		}
		s := NewSystem(topo)
		for _, a := range beh {
			if a.str("a") == "lreq" {
				s.needOffsets = true
			}
		}
		must(enc.Encode(map[string]any{"a": map[string]string{"a": "reset"}}))
		for _, a := range beh {
			must(enc.Encode(s.step(a)))
			ns++
		}
		s.Close()
		nb++
	}
	must(sc.Err())
	fmt.Printf("{\"behaviours\": %d, \"steps\": %d}\n", nb, ns)
}
