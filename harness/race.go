package main

// Replays TLC-enumerated interleavings of the check-then-act windows (spec/CheckThenAct.tla) on real goroutines.

import (
	"bufio"
	"encoding/json"
	"flag"
	"fmt"
	"os"

	"github.com/enbility/spine-go/api"
	"github.com/enbility/spine-go/model"
	"github.com/enbility/spine-go/spine"
)

type RaceSched struct {
	Sched   []string `json:"sched"`
	Unsafe  bool     `json:"unsafe"`
	Variant int      `json:"variant"` // use-case window: what the first process does (0 add, 1 set availability, 2 remove)
}
type RaceLine struct {
	Mech     string      `json:"mech"`
	Sched    []string    `json:"sched"`
	Unsafe   bool        `json:"unsafe"` // the split model calls this interleaving unsafe
	Realised bool        `json:"realised"`
	Blocked  int         `json:"blocked"`  // index of the step that could not be taken (-1 = none)
	Effects  []string    `json:"effects"`  // processes whose request took effect
	Count    int         `json:"count"`    // bindings on the feature / features of the key / use cases present
	Same     bool        `json:"same"`     // feature: both calls returned the same object
	Distinct bool        `json:"distinct"` // feature numbers pairwise distinct
	Panic    string      `json:"panic"`
	Hooks    []HookEvent `json:"hooks"`
	Variant  int         `json:"variant"`
}

func raceReplay(args []string) {
	fs := flag.NewFlagSet("race-replay", flag.ExitOnError)
	topoF := fs.String("topo", "", "")
	inF := fs.String("in", "", "schedules ndjson")
	outF := fs.String("out", "", "trace ndjson")
	mech := fs.String("mech", "bind", "bind | feature | usecase | entity")
	must(fs.Parse(args))
	tb, err := os.ReadFile(*topoF)
	must(err)
	topo, err := parseTopo(tb)
	must(err)
	in, err := os.Open(*inF)
	must(err)
	defer in.Close()
	out, err := os.Create(*outF)
	must(err)
	defer out.Close()
	enc := json.NewEncoder(out)
	sc := bufio.NewScanner(in)
	n := 0
	for sc.Scan() {
		var rs RaceSched
		must(json.Unmarshal(sc.Bytes(), &rs))
		must(enc.Encode(runRace(topo, *mech, rs)))
		n++
	}
	fmt.Printf("{\"schedules\": %d}\n", n)
}

func runRace(topo *Topo, mech string, rs RaceSched) RaceLine {
	line := RaceLine{Mech: mech, Sched: rs.Sched, Unsafe: rs.Unsafe, Blocked: -1, Effects: []string{}, Variant: rs.Variant}
	s := NewSystem(topo)
	defer s.Close()
	// both peers connected and discovered
	for _, pn := range []string{"p1", "p2"} {
		s.step(Action{"a": "connect", "p": pn})
		s.step(Action{"a": "discover", "p": pn, "ents": []any{"1", "2"}, "ack": false})
	}
	sched := NewSched()
	defer sched.Close()
	procPeer := map[string]string{"A": "p1", "B": "p2", "C": "p1"}
	var feats [3]api.FeatureLocalInterface
	var raceEnts [3]*spine.EntityLocal
	switch mech {
	case "bind":
		for i, name := range []string{"A", "B", "C"} {
			name, i := name, i
			client := []string{"c11", "c11", "c12"}[i]
			sched.Add(name, []string{"AddBinding.afterCheck"}, func() {
				p := s.peers[procPeer[name]]
				s.exec(Action{"a": "bind", "p": p.name, "c": client, "s": "S1", "ft": "LoadControl", "ack": true}, p, &TraceLine{})
			})
		}
	case "feature":
		ent := s.lents["2"]
		for i, name := range []string{"A", "B", "C"} {
			name, i := name, i
			_ = name
			sched.Add(name, []string{"GetOrAddFeature.miss"}, func() {
				feats[i] = ent.GetOrAddFeature(model.FeatureTypeTypeMeasurement, model.RoleTypeClient)
			})
		}
	case "usecase":
		// entity 1 has a use case already; process A adds another one, or changes / removes that one (by schedule
		// number); B and C add one on their own entities
		s.lents["1"].AddUseCaseSupport("CEM", "ucB", "1.0.0", "release", true, []model.UseCaseScenarioSupportType{1})
		for i, name := range []string{"A", "B", "C"} {
			i := i
			ent := s.lents[[]string{"1", "2", "1.1"}[i]]
			sched.Add(name, []string{"UseCase.beforeStore"}, func() {
				switch {
				case i == 0 && rs.Variant == 1:
					ent.SetUseCaseAvailability("CEM", "ucB", false)
				case i == 0 && rs.Variant == 2:
					ent.RemoveUseCaseSupport("CEM", "ucB")
				default:
					ent.AddUseCaseSupport("CEM", "ucA", "1.0.0", "release", true, []model.UseCaseScenarioSupportType{1})
				}
			})
		}
	case "entity":
		// the entity list of the device is read, filtered / extended and stored: A removes entity [3] (which has a use
		// case and a feature), B adds entity [4], C adds entity [3,1]; p1 is subscribed to node management.  A parks
		// inside its clean-up (variant 0: in the use-case removal at the start of RemoveEntity; variant 1: behind the
		// clean-up, before the list is replaced), B and C behind the insertion, before the announcement
		s.step(Action{"a": "sub", "p": "p1", "c": "nm", "s": "NM", "ft": "NodeManagement", "ack": false})
		s.peers["p1"].w.drain()
		for i, e := range []string{"3", "4", "3.1"} {
			raceEnts[i] = spine.NewEntityLocal(s.dev, model.EntityTypeTypeCEM, entAddr(e), 0)
			raceEnts[i].GetOrAddFeature(model.FeatureTypeTypeMeasurement, model.RoleTypeClient)
		}
		s.dev.AddEntity(raceEnts[0])
		raceEnts[0].AddUseCaseSupport("CEM", "ucA", "1.0.0", "release", true, []model.UseCaseScenarioSupportType{1})
		s.peers["p1"].w.drain()
		agate := []string{"UseCase.beforeStore"}
		if rs.Variant == 1 {
			agate = []string{"RemoveEntity.cleaned"}
		}
		sched.Add("A", agate, func() { s.dev.RemoveEntity(raceEnts[0]) })
		sched.Add("B", []string{"AddEntity.appended"}, func() { s.dev.AddEntity(raceEnts[1]) })
		sched.Add("C", []string{"AddEntity.appended"}, func() { s.dev.AddEntity(raceEnts[2]) })
	default:
		panic("mech " + mech)
	}
	line.Realised = true
	for i, name := range rs.Sched {
		if _, ok := sched.Step(name); !ok {
			line.Realised = false
			line.Blocked = i
			break
		}
	}
	if !sched.Drain() {
		line.Panic = "drain: a process did not finish"
	}
	// a schedule that could not be realised (the code is more atomic than the split model) may have left
	// processes unstarted: they run now, one after the other, so that the final outcome is that of all of them
	for _, name := range rs.Sched {
		for p := sched.procs[name]; p != nil && !p.done; {
			if _, ok := sched.Step(name); !ok {
				line.Panic = "a process did not finish after the schedule"
				break
			}
		}
	}
	for _, p := range sched.procs {
		if p.panicV != "" {
			line.Panic = p.name + ": " + p.panicV
		}
	}
	line.Hooks = sched.Events()
	used := map[string]bool{}
	for _, n := range rs.Sched {
		used[n] = true
	}
	switch mech {
	case "bind":
		st := s.project()
		for _, b := range st.Binds {
			if b.S == "S1" {
				line.Count++
			}
		}
		for name := range used {
			p := s.peers[procPeer[name]]
			_ = p
		}
		// which requests were granted: results written to the peers
		for _, pn := range []string{"p1", "p2"} {
			for _, raw := range s.peers[pn].w.drain() {
				d, _ := s.abstractOut(s.peers[pn], raw, 0)
				if d.K == "result" && d.Ok {
					line.Effects = append(line.Effects, pn)
				}
			}
		}
	case "feature":
		ent := s.lents["2"]
		nums := map[uint]int{}
		for _, f := range ent.Features() {
			nums[uint(*f.Address().Feature)]++
			if f.Type() == model.FeatureTypeTypeMeasurement && f.Role() == model.RoleTypeClient {
				line.Count++
			}
		}
		line.Distinct = true
		for _, c := range nums {
			if c > 1 {
				line.Distinct = false
			}
		}
		line.Same = true
		var first api.FeatureLocalInterface
		for i, name := range []string{"A", "B", "C"} {
			if used[name] {
				if first == nil {
					first = feats[i]
				} else if feats[i] != first {
					line.Same = false
				}
				if feats[i] != nil && ent.FeatureOfAddress(feats[i].Address().Feature) != feats[i] {
					line.Same = false // the returned feature's address does not resolve back to it
				}
			}
		}
	case "entity":
		// count = the processes whose change is in the tree at the end; same = exactly one notification per change to the
		// subscriber; distinct = a discovery read lists exactly the tree and every announced address resolves
		have := map[string]bool{}
		line.Distinct = true
		for _, ent := range s.dev.Entities() {
			e := entStr(ent.Address().Entity)
			if dynamicEnt(e) {
				have[e] = true
				for _, f := range ent.Features() {
					var back api.FeatureLocalInterface = s.dev.FeatureByAddress(f.Address())
					if back != f {
						line.Distinct = false
					}
				}
			}
		}
		want := map[string]bool{}
		for i, name := range []string{"A", "B", "C"} {
			if !used[name] {
				continue
			}
			e := []string{"3", "4", "3.1"}[i]
			if (i == 0 && !have[e]) || (i > 0 && have[e]) {
				line.Count++
				line.Effects = append(line.Effects, e)
			}
			want[[]string{"removed", "added", "added"}[i]+" "+e] = true
		}
		got := map[string]int{}
		for _, raw := range s.peers["p1"].w.drain() {
			var dg model.Datagram
			if json.Unmarshal(raw, &dg) != nil || len(dg.Datagram.Payload.Cmd) != 1 {
				continue
			}
			dd := dg.Datagram.Payload.Cmd[0].NodeManagementDetailedDiscoveryData
			if dd == nil || len(dd.EntityInformation) != 1 || dd.EntityInformation[0].Description == nil || dd.EntityInformation[0].Description.EntityAddress == nil || dd.EntityInformation[0].Description.LastStateChange == nil {
				continue
			}
			d := dd.EntityInformation[0].Description
			got[string(*d.LastStateChange)+" "+entStr(d.EntityAddress.Entity)]++
		}
		line.Same = len(got) == len(want)
		for k := range want {
			if got[k] != 1 {
				line.Same = false
			}
		}
		p2 := s.peers["p2"]
		p2.w.drain()
		s.inject(p2, model.CmdClassifierTypeRead, s.remoteAddr(p2, "nm"), s.nmLocal(), false, nil,
			model.CmdType{NodeManagementDetailedDiscoveryData: &model.NodeManagementDetailedDiscoveryDataType{}})
		replied := false
		for _, raw := range p2.w.drain() {
			var dg model.Datagram
			if json.Unmarshal(raw, &dg) != nil || len(dg.Datagram.Payload.Cmd) != 1 || dg.Datagram.Payload.Cmd[0].NodeManagementDetailedDiscoveryData == nil {
				continue
			}
			t, _ := absDiscovery(dg.Datagram.Payload.Cmd[0].NodeManagementDetailedDiscoveryData, localDevAddr)
			replied = true
			if len(t.Ents) != len(have) {
				line.Distinct = false
			}
			for _, e := range t.Ents {
				if !have[e] {
					line.Distinct = false
				}
			}
		}
		if !replied {
			line.Distinct = false
		}
	case "usecase":
		// count = the processes whose change is in the registry at the end
		st := s.project()
		find := func(e, name string) *AbsUc {
			for i := range st.Ucs {
				if st.Ucs[i].E == e && st.Ucs[i].Name == name {
					return &st.Ucs[i]
				}
			}
			return nil
		}
		for i, name := range []string{"A", "B", "C"} {
			if !used[name] {
				continue
			}
			e := []string{"1", "2", "1.1"}[i]
			pre := find("1", "ucB")
			ok := find(e, "ucA") != nil
			switch {
			case i == 0 && rs.Variant == 1:
				ok = pre != nil && !pre.Av
			case i == 0 && rs.Variant == 2:
				ok = pre == nil
			case i == 0:
				ok = ok && pre != nil && pre.Av
			}
			if ok {
				line.Count++
				line.Effects = append(line.Effects, e)
			}
		}
	}
	return line
}
