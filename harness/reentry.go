package main

// Re-entrancy probes (C17, completion half): callbacks and event handlers that call back into the stack from inside.
// The design runs response / result / write-approval callbacks and application-level event handlers outside the
// stack's locks (LockOrder.tla: "reply", "verdict"); a callback that re-enters the API must therefore always complete.
// (Core-level handlers are not public API: they run inside the publisher's critical section and must not call back.)

import (
	"sync"
	"time"

	"github.com/enbility/spine-go/api"
	"github.com/enbility/spine-go/model"
	"github.com/enbility/spine-go/spine"
)

var reentryScenarios = []string{"respcb", "resultcb", "approvalcb", "apphandler"}

type reHandler struct{ f func(api.EventPayload) }

func (h *reHandler) HandleEvent(p api.EventPayload) { h.f(p) }

func reentryOne(topo *Topo, scenario string) LockLine {
	line := LockLine{Kind: "reentry", Holder: scenario}
	l := newLockSUT(topo, false)
	s := l.s
	p1, p2 := s.peers["p1"], s.peers["p2"]
	K1, S1 := s.lfeat["K1"], s.lfeat["S1"]
	var wg sync.WaitGroup
	cbDone := make(chan struct{}, 8)
	request := func() *model.MsgCounterType {
		rd := s.dev.RemoteDeviceForSki(p2.ski)
		if rd == nil {
			return nil
		}
		rf := rd.FeatureByAddress(s.remoteAddr(p2, "s14"))
		if rf == nil || isNilIface(rf) {
			return nil
		}
		// a different selector every time, so that the request is never withheld as a duplicate
		l.mu.Lock()
		l.n++
		id := l.n
		l.mu.Unlock()
		ctr, _ := K1.RequestRemoteData(fnMap["limit"], &model.LoadControlLimitListDataSelectorsType{LimitId: ptr(model.LoadControlLimitIdType(id))}, nil, rf)
		return ctr
	}
	body := guarded(func() {
		switch scenario {
		case "respcb":
			// the callback of request 1 sends request 2, registers a callback for it and a result callback
			ctr := request()
			_ = K1.AddResponseCallback(*ctr, func(m api.ResponseMessage) {
				if c2 := request(); c2 != nil {
					_ = K1.AddResponseCallback(*c2, func(api.ResponseMessage) {})
				}
				K1.AddResultCallback(func(api.ResponseMessage) {})
				_ = K1.DataCopy(fnMap["limit"])
				cbDone <- struct{}{}
			})
			s.injectConc(p2, model.CmdClassifierTypeReply, s.remoteAddr(p2, "s14"), s.localAddr("K1"), false, ptr(uint64(*ctr)), s.payloadCmd("limit", 2, "reply"))
			<-cbDone
		case "resultcb":
			ctr := request()
			K1.AddResultCallback(func(m api.ResponseMessage) {
				K1.AddResultCallback(func(api.ResponseMessage) {})
				if c2 := request(); c2 != nil {
					_ = K1.AddResponseCallback(*c2, func(api.ResponseMessage) {})
				}
				_, _ = K1.RemoveRemoteSubscription(s.remoteAddr(p2, "s14"))
				cbDone <- struct{}{}
			})
			s.injectConc(p2, model.CmdClassifierTypeResult, s.remoteAddr(p2, "s14"), s.localAddr("K1"), false, ptr(uint64(*ctr)), s.payloadCmd("res1", 0, "result"))
			<-cbDone
		case "approvalcb":
			// the application decides inside the callback
			_ = S1.AddWriteApprovalCallback(func(msg *api.Message) {
				S1.ApproveOrDenyWrite(msg, model.ErrorType{ErrorNumber: 0})
				_ = S1.DataCopy(fnMap["limit"])
				cbDone <- struct{}{}
			})
			S1.SetWriteApprovalTimeout(time.Hour)
			s.execConc(Action{"a": "write", "p": "p1", "c": "c11", "s": "S1", "fn": "limit", "v": float64(3), "ack": true}, p1)
			<-cbDone
		case "apphandler":
			// an application-level handler unsubscribes itself, subscribes another handler and uses the API
			h := &reHandler{}
			h2 := &reHandler{f: func(api.EventPayload) {}}
			var once sync.Once
			h.f = func(ev api.EventPayload) {
				once.Do(func() {
					_ = spine.Events.Unsubscribe(h)
					_ = spine.Events.Subscribe(h2)
					_, _ = K1.SubscribeToRemote(s.remoteAddr(p1, "s14"))
					S1.SetData(fnMap["limit"], mkData("limit", 2))
					spine.Events.Publish(api.EventPayload{Ski: "probe", EventType: api.EventTypeDataChange})
					cbDone <- struct{}{}
				})
			}
			_ = spine.Events.Subscribe(h)
			defer func() { _ = spine.Events.Unsubscribe(h); _ = spine.Events.Unsubscribe(h2) }()
			l.run("reply", "p2")
			<-cbDone
		}
		wg.Wait()
	})
	pv, done := waitDone(body, 3*time.Second)
	line.Completed, line.Parked = done, done
	if pv != "" {
		line.Panic = pv
	}
	if line.Completed {
		ac := guarded(func() {
			l.run("listbinds", "p1")
			l.run("request", "p2")
			l.run("reply", "p2")
			l.run("subreq", "p2")
			l.run("discread", "p2")
			l.hbEnt.HeartbeatManager().StopHeartbeat()
			l.s.Close()
		})
		pv, ok := waitDone(ac, 3*time.Second)
		line.After = ok
		if pv != "" {
			line.Panic = "afterwards: " + pv
		}
	}
	return line
}
