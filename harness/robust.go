package main

// Driver for spec/Robust.tla (C05): valid messages of every kind with named optional fields dropped, nulled, emptied,
// replaced by bogus or wrong-kind values (and byte-level junk), delivered in any connection phase; afterwards every
// connected peer must still get its detailed discovery read answered.

import (
	"bufio"
	"encoding/json"
	"flag"
	"fmt"
	"os"
	"sort"
	"strings"
	"time"

	"runtime/debug"

	"github.com/enbility/spine-go/api"
	"github.com/enbility/spine-go/model"
)

func debugStack() []byte { return debug.Stack() }

// topFrame: the innermost spine-go function of a panic stack (no line number)
func topFrame(stack []byte) string {
	for _, l := range strings.Split(string(stack), "\n") {
		if strings.HasPrefix(l, "github.com/enbility/spine-go/") {
			f := strings.TrimPrefix(l, "github.com/enbility/spine-go/")
			if i := strings.LastIndex(f, "("); i > 0 {
				f = f[:i]
			}
			return f
		}
	}
	return "?"
}

type RMut struct {
	F  int    `json:"f"`
	Op string `json:"op"`
}
type RDelivery struct {
	Tmpl string `json:"tmpl"`
	Muts []RMut `json:"muts"`
	Junk int    `json:"junk"` // > 0: byte-level junk variant instead of field mutations
	Src  string `json:"src"`  // "alt": the message is sent by another announced feature of the peer ([1]/1) than the template's
	Dst  string `json:"dst"`  // "alt": the message is addressed to a feature the local device does not have ([1]/99)
}
type RCase struct {
	Phase string      `json:"phase"`
	Seq   []RDelivery `json:"seq"`
}
type RLine struct {
	Phase     string          `json:"phase"`
	Step      int             `json:"step"`
	Tmpl      string          `json:"tmpl"`
	Muts      []string        `json:"muts"`
	Outcome   string          `json:"outcome"` // returned | panicked | hung
	Frame     string          `json:"frame"`   // top spine-go function of the panic
	Served    map[string]bool `json:"served"`  // follow-up discovery read answered, per connected peer
	AllServed bool            `json:"allserved"`
	Case      json.RawMessage `json:"case"`
}

var robustTemplates = []string{"discReply", "discNotifyAdd", "discNotifyRemove", "discNotifyFull", "subRequest", "subDelete", "bindRequest", "bindDelete",
	"read", "readSel", "reply", "notifySel", "write", "writeDelete", "result", "usecaseReply", "listSubs"}

// the valid message of a template, from peer p in the current state of the system
func (s *System) robustTemplate(p *Peer, name string) model.Datagram {
	nmR, nmL := s.remoteAddr(p, "nm"), s.nmLocal()
	mk := func(cls model.CmdClassifierType, src, dst *model.FeatureAddressType, ack bool, ref *uint64, cmd model.CmdType) model.Datagram {
		p.ctr++
		ctr := model.MsgCounterType(p.ctr)
		h := model.HeaderType{SpecificationVersion: ptr(model.SpecificationVersionType("1.3.0")), AddressSource: src, AddressDestination: dst, MsgCounter: &ctr, CmdClassifier: &cls}
		if ack {
			h.AckRequest = &ack
		}
		if ref != nil {
			r := model.MsgCounterType(*ref)
			h.MsgCounterReference = &r
		}
		return model.Datagram{Datagram: model.DatagramType{Header: h, Payload: model.PayloadType{Cmd: []model.CmdType{cmd}}}}
	}
	added, removed := model.NetworkManagementStateChangeTypeAdded, model.NetworkManagementStateChangeTypeRemoved
	partial := []model.FilterType{*model.NewFilterTypePartial()}
	fnDD := ptr(model.FunctionTypeNodeManagementDetailedDiscoveryData)
	ref := ptr(uint64(424242))
	if c, ok := p.lastReq["discovery"]; ok {
		ref = &c
	}
	reqRef := ref // the request of the local client feature that is outstanding (if any)
	if c, ok := p.lastReq["limit"]; ok {
		reqRef = &c
	}
	limitSel := model.FilterType{CmdControl: &model.CmdControlType{Partial: &model.ElementTagType{}},
		LoadControlLimitListDataSelectors: &model.LoadControlLimitListDataSelectorsType{LimitId: ptr(model.LoadControlLimitIdType(0))}}
	limitDel := model.FilterType{CmdControl: &model.CmdControlType{Delete: &model.ElementTagType{}},
		LoadControlLimitListDataSelectors: &model.LoadControlLimitListDataSelectorsType{LimitId: ptr(model.LoadControlLimitIdType(0))},
		LoadControlLimitDataElements:      &model.LoadControlLimitDataElementsType{Value: &model.ScaledNumberElementsType{}}}
	fnLimit := ptr(model.FunctionTypeLoadControlLimitListData)
	limit := mkData("limit", 2).(*model.LoadControlLimitListDataType)
	switch name {
	case "discReply":
		return mk(model.CmdClassifierTypeReply, nmR, nmL, false, ref, model.CmdType{NodeManagementDetailedDiscoveryData: s.discoveryData(p, []string{"0", "1", "2"}, nil, true, true)})
	case "discNotifyAdd":
		return mk(model.CmdClassifierTypeNotify, nmR, nmL, true, nil, model.CmdType{Function: fnDD, Filter: partial, NodeManagementDetailedDiscoveryData: s.discoveryData(p, []string{"1.1"}, &added, true, true)})
	case "discNotifyRemove":
		return mk(model.CmdClassifierTypeNotify, nmR, nmL, true, nil, model.CmdType{Function: fnDD, Filter: partial, NodeManagementDetailedDiscoveryData: s.discoveryData(p, []string{"2"}, &removed, false, true)})
	case "discNotifyFull":
		return mk(model.CmdClassifierTypeNotify, nmR, nmL, true, nil, model.CmdType{NodeManagementDetailedDiscoveryData: s.discoveryData(p, []string{"0", "1"}, nil, true, true)})
	case "subRequest":
		return mk(model.CmdClassifierTypeCall, nmR, nmL, true, nil, model.CmdType{NodeManagementSubscriptionRequestCall: &model.NodeManagementSubscriptionRequestCallType{SubscriptionRequest: &model.SubscriptionManagementRequestCallType{
			ClientAddress: s.remoteAddr(p, "c12"), ServerAddress: s.localAddr("S2"), ServerFeatureType: ptr(model.FeatureTypeTypeLoadControl)}}})
	case "subDelete":
		return mk(model.CmdClassifierTypeCall, nmR, nmL, true, nil, model.CmdType{NodeManagementSubscriptionDeleteCall: &model.NodeManagementSubscriptionDeleteCallType{SubscriptionDelete: &model.SubscriptionManagementDeleteCallType{
			ClientAddress: s.remoteAddr(p, "c11"), ServerAddress: s.localAddr("S1")}}})
	case "bindRequest":
		return mk(model.CmdClassifierTypeCall, nmR, nmL, true, nil, model.CmdType{NodeManagementBindingRequestCall: &model.NodeManagementBindingRequestCallType{BindingRequest: &model.BindingManagementRequestCallType{
			ClientAddress: s.remoteAddr(p, "c12"), ServerAddress: s.localAddr("S2"), ServerFeatureType: ptr(model.FeatureTypeTypeLoadControl)}}})
	case "bindDelete":
		return mk(model.CmdClassifierTypeCall, nmR, nmL, true, nil, model.CmdType{NodeManagementBindingDeleteCall: &model.NodeManagementBindingDeleteCallType{BindingDelete: &model.BindingManagementDeleteCallType{
			ClientAddress: s.remoteAddr(p, "c11"), ServerAddress: s.localAddr("S1")}}})
	case "read":
		return mk(model.CmdClassifierTypeRead, s.remoteAddr(p, "c11"), s.localAddr("S1"), false, nil, model.CmdType{LoadControlLimitListData: &model.LoadControlLimitListDataType{}})
	case "readSel":
		return mk(model.CmdClassifierTypeRead, s.remoteAddr(p, "c11"), s.localAddr("S1"), false, nil, model.CmdType{Function: fnLimit, Filter: []model.FilterType{limitSel}, LoadControlLimitListData: &model.LoadControlLimitListDataType{}})
	case "reply":
		return mk(model.CmdClassifierTypeReply, s.remoteAddr(p, "s14"), s.localAddr("K1"), false, reqRef, model.CmdType{LoadControlLimitListData: limit})
	case "notifySel":
		return mk(model.CmdClassifierTypeNotify, s.remoteAddr(p, "s14"), s.localAddr("K1"), true, nil, model.CmdType{Function: fnLimit, Filter: []model.FilterType{limitSel}, LoadControlLimitListData: limit})
	case "write":
		return mk(model.CmdClassifierTypeWrite, s.remoteAddr(p, "c11"), s.localAddr("S1"), true, nil, model.CmdType{LoadControlLimitListData: limit})
	case "writeDelete":
		return mk(model.CmdClassifierTypeWrite, s.remoteAddr(p, "c11"), s.localAddr("S1"), true, nil, model.CmdType{Function: fnLimit, Filter: []model.FilterType{limitDel, *model.NewFilterTypePartial()}, LoadControlLimitListData: limit})
	case "result":
		return mk(model.CmdClassifierTypeResult, s.remoteAddr(p, "s14"), s.localAddr("K1"), false, reqRef, model.CmdType{ResultData: &model.ResultDataType{ErrorNumber: ptr(model.ErrorNumberType(1)), Description: ptr(model.DescriptionType("x"))}})
	case "usecaseReply":
		return mk(model.CmdClassifierTypeReply, nmR, nmL, false, ref, model.CmdType{NodeManagementUseCaseData: &model.NodeManagementUseCaseDataType{UseCaseInformation: []model.UseCaseInformationDataType{{
			Address: &model.FeatureAddressType{Device: ptr(model.AddressDeviceType(p.devAddr)), Entity: entAddr("1")}, Actor: ptr(model.UseCaseActorTypeEVSE),
			UseCaseSupport: []model.UseCaseSupportType{{UseCaseName: ptr(model.UseCaseNameTypeEVSECommissioningAndConfiguration), UseCaseVersion: ptr(model.SpecificationVersionType("1.0.1")), ScenarioSupport: []model.UseCaseScenarioSupportType{1, 2}}}}}}})
	case "listSubs":
		return mk(model.CmdClassifierTypeCall, nmR, nmL, true, nil, model.CmdType{NodeManagementSubscriptionData: &model.NodeManagementSubscriptionDataType{}})
	}
	panic("template " + name)
}

// jsonPaths lists every path of a decoded JSON value (objects and arrays included), sorted
func jsonPaths(v any, prefix string, out *[]string) {
	switch t := v.(type) {
	case map[string]any:
		for k, e := range t {
			p := prefix + "/" + k
			*out = append(*out, p)
			jsonPaths(e, p, out)
		}
	case []any:
		for i, e := range t {
			p := fmt.Sprintf("%s/%d", prefix, i)
			*out = append(*out, p)
			jsonPaths(e, p, out)
		}
	}
}

// swap: a valid value of the same domain that does not fit the rest of the message
var swapValues = map[string]string{
	"loadControlLimitListData": "loadControlLimitDescriptionListData", "loadControlLimitDescriptionListData": "loadControlLimitListData",
	"nodeManagementDetailedDiscoveryData": "nodeManagementUseCaseData", "nodeManagementUseCaseData": "nodeManagementDetailedDiscoveryData",
	"read": "write", "write": "notify", "notify": "reply", "reply": "result", "result": "call", "call": "read",
	"LoadControl": "DeviceConfiguration", "DeviceConfiguration": "LoadControl", "NodeManagement": "LoadControl",
	"client": "server", "server": "client", "special": "server", "added": "removed", "removed": "modified",
}

func mutateAt(root any, path string, op string) any {
	parts := strings.Split(strings.TrimPrefix(path, "/"), "/")
	var rec func(v any, i int) any
	rec = func(v any, i int) any {
		key := parts[i]
		last := i == len(parts)-1
		switch t := v.(type) {
		case map[string]any:
			cur, ok := t[key]
			if !ok {
				return v
			}
			if !last {
				t[key] = rec(cur, i+1)
				return t
			}
			switch op {
			case "drop":
				delete(t, key)
			case "null":
				t[key] = nil
			case "empty":
				switch cur.(type) {
				case map[string]any:
					t[key] = map[string]any{}
				case []any:
					t[key] = []any{}
				case string:
					t[key] = ""
				default:
					t[key] = 0
				}
			case "bogus":
				switch cur.(type) {
				case string:
					t[key] = "bogusValue"
				case float64:
					t[key] = 4294967295.0
				case bool:
					t[key] = !cur.(bool)
				case []any:
					t[key] = append(cur.([]any), cur.([]any)...)
				default:
					t[key] = map[string]any{"bogus": 1}
				}
			case "zero":
				// the zero value of the field's kind (entity / feature / counter 0, empty string, false)
				switch cur.(type) {
				case string:
					t[key] = ""
				case float64:
					t[key] = 0
				case bool:
					t[key] = false
				case []any:
					t[key] = []any{0}
				default:
					t[key] = map[string]any{}
				}
			case "swap":
				// another plausible value of the same domain
				switch c := cur.(type) {
				case string:
					if o, ok := swapValues[c]; ok {
						t[key] = o
					} else {
						t[key] = c + "X"
					}
				case float64:
					t[key] = c + 1
				case bool:
					t[key] = !c
				}
			case "wrongkind":
				switch cur.(type) {
				case string:
					t[key] = 17
				case float64:
					t[key] = "seventeen"
				case []any:
					t[key] = map[string]any{}
				case map[string]any:
					t[key] = []any{}
				default:
					t[key] = "x"
				}
			}
			return t
		case []any:
			var idx int
			fmt.Sscanf(key, "%d", &idx)
			if idx >= len(t) {
				return v
			}
			if !last {
				t[idx] = rec(t[idx], i+1)
				return t
			}
			switch op {
			case "drop":
				return append(t[:idx], t[idx+1:]...)
			case "null":
				t[idx] = nil
			case "empty":
				t[idx] = map[string]any{}
			case "bogus":
				t[idx] = "bogusValue"
			case "wrongkind":
				t[idx] = 17
			case "zero":
				switch t[idx].(type) {
				case float64:
					t[idx] = 0
				case string:
					t[idx] = ""
				default:
					t[idx] = map[string]any{}
				}
			case "swap":
				switch c := t[idx].(type) {
				case float64:
					t[idx] = c + 1
				case string:
					if o, ok := swapValues[c]; ok {
						t[idx] = o
					} else {
						t[idx] = c + "X"
					}
				}
			}
			return t
		}
		return v
	}
	return rec(root, 0)
}

func (s *System) robustPhase(phase string) {
	for _, pn := range []string{"p1", "p2"} {
		s.step(Action{"a": "connect", "p": pn})
	}
	if phase == "connected" {
		return
	}
	for _, pn := range []string{"p1", "p2"} {
		s.step(Action{"a": "discover", "p": pn, "ents": []any{"1", "2"}, "ack": false})
	}
	if phase == "discovered" {
		return
	}
	s.step(Action{"a": "bind", "p": "p1", "c": "c11", "s": "S1", "ft": "LoadControl", "ack": false})
	s.step(Action{"a": "sub", "p": "p1", "c": "c11", "s": "S1", "ft": "LoadControl", "ack": false})
	s.step(Action{"a": "sub", "p": "p2", "c": "c11", "s": "S1", "ft": "LoadControl", "ack": false})
	s.step(Action{"a": "lsub", "k": "K1", "p": "p1", "r": "s14"})
	s.step(Action{"a": "setdata", "s": "S1", "fn": "limit", "v": float64(1)})
	s.robustOutstanding()
	if phase == "reconnected" {
		// the first peer had a write pending approval, lost its connection and is back (same SKI): connected, discovered,
		// bound and subscribed again
		_ = s.lfeat["S1"].AddWriteApprovalCallback(func(msg *api.Message) {})
		s.lfeat["S1"].SetWriteApprovalTimeout(time.Hour)
		p := s.peers["p1"]
		s.exec(Action{"a": "write", "p": "p1", "c": "c11", "s": "S1", "fn": "limit", "v": float64(2), "ack": true}, p, &TraceLine{})
		s.step(Action{"a": "disconnect", "p": "p1"})
		s.step(Action{"a": "connect", "p": "p1"})
		s.step(Action{"a": "discover", "p": "p1", "ents": []any{"1", "2"}, "ack": false})
		s.step(Action{"a": "bind", "p": "p1", "c": "c11", "s": "S1", "ft": "LoadControl", "ack": false})
		s.step(Action{"a": "sub", "p": "p1", "c": "c11", "s": "S1", "ft": "LoadControl", "ack": false})
		s.step(Action{"a": "lsub", "k": "K1", "p": "p1", "r": "s14"})
		s.robustOutstanding()
	}
	if phase == "pending" {
		_ = s.lfeat["S1"].AddWriteApprovalCallback(func(msg *api.Message) {})
		s.lfeat["S1"].SetWriteApprovalTimeout(time.Hour)
		p := s.peers["p1"]
		s.exec(Action{"a": "write", "p": "p1", "c": "c11", "s": "S1", "fn": "limit", "v": float64(2), "ack": true}, p, &TraceLine{})
	}
}

// robustOutstanding: the local client feature has a request to the first peer outstanding, with a response callback
// that - as applications chaining requests do - registers further callbacks on the same feature when it fires; the
// reply and result templates reference that request
func (s *System) robustOutstanding() {
	s.step(Action{"a": "lreq", "k": "K1", "p": "p1"})
	p := s.peers["p1"]
	ctr, ok := p.lastReq["limit"]
	if !ok {
		return
	}
	K1 := s.lfeat["K1"]
	_ = K1.AddResponseCallback(model.MsgCounterType(ctr), func(api.ResponseMessage) {
		_ = K1.AddResponseCallback(model.MsgCounterType(ctr+100000), func(api.ResponseMessage) {})
		K1.AddResultCallback(func(api.ResponseMessage) {})
		_ = K1.DataCopy(fnMap["limit"])
	})
}

func robustTemplatesCmd(args []string) {
	// prints the catalogue: template -> number of JSON paths (the field domain the specification quantifies over)
	tb, err := os.ReadFile(args[0])
	must(err)
	topo, err := parseTopo(tb)
	must(err)
	s := NewSystem(topo)
	defer s.Close()
	s.robustPhase("bound")
	cat := map[string][]string{}
	for _, t := range robustTemplates {
		cat[t] = templatePaths(s, s.peers["p1"], t)
	}
	b, _ := json.Marshal(cat)
	fmt.Println(string(b))
}

func templatePaths(s *System, p *Peer, t string) []string {
	b, _ := json.Marshal(s.robustTemplate(p, t))
	var v any
	_ = json.Unmarshal(b, &v)
	var paths []string
	jsonPaths(v, "", &paths)
	sort.Strings(paths)
	return paths
}

func robustReplay(args []string) {
	fs := flag.NewFlagSet("robust-replay", flag.ExitOnError)
	topoF := fs.String("topo", "", "")
	inF := fs.String("in", "", "")
	outF := fs.String("out", "", "")
	must(fs.Parse(args))
	tb, err := os.ReadFile(*topoF)
	must(err)
	topo, err := parseTopo(tb)
	must(err)
	in, err := os.Open(*inF)
	must(err)
	defer in.Close()
	out, err := os.Create(*outF)
	must(err)
	defer out.Close()
	w := bufio.NewWriterSize(out, 1<<20)
	defer w.Flush()
	enc := json.NewEncoder(w)
	sc := bufio.NewScanner(in)
	sc.Buffer(make([]byte, 1<<20), 1<<26)
	n := 0
	for sc.Scan() {
		var c RCase
		must(json.Unmarshal(sc.Bytes(), &c))
		s := NewSystem(topo)
		s.robustPhase(c.Phase)
		hung := false
		for i, d := range c.Seq {
			p := s.peers["p1"]
			line := RLine{Phase: c.Phase, Step: i, Tmpl: d.Tmpl, Muts: []string{}, Served: map[string]bool{}, Case: append(json.RawMessage{}, sc.Bytes()...)}
			raw, _ := json.Marshal(s.robustTemplate(p, d.Tmpl))
			if d.Junk > 0 {
				raw = junk(raw, d.Junk)
				line.Muts = append(line.Muts, fmt.Sprintf("junk%d", d.Junk))
			} else if len(d.Muts) > 0 {
				var v any
				_ = json.Unmarshal(raw, &v)
				var paths []string
				jsonPaths(v, "", &paths)
				sort.Strings(paths)
				// apply deeper paths first so that indices stay valid
				ms := append([]RMut{}, d.Muts...)
				sort.Slice(ms, func(a, b int) bool { return ms[a].F > ms[b].F })
				for _, m := range ms {
					if m.F-1 < len(paths) {
						v = mutateAt(v, paths[m.F-1], m.Op)
						line.Muts = append(line.Muts, m.Op+" "+paths[m.F-1])
					}
				}
				raw, _ = json.Marshal(v)
			}
			if d.Src == "alt" && d.Junk == 0 {
				// the same message, sent by the peer's announced client feature [1]/1 instead of the template's source
				var v any
				_ = json.Unmarshal(raw, &v)
				if dg, ok := v.(map[string]any)["datagram"].(map[string]any); ok {
					if h, ok := dg["header"].(map[string]any); ok {
						if src, ok := h["addressSource"].(map[string]any); ok {
							src["entity"] = []any{1}
							src["feature"] = 1
							line.Muts = append(line.Muts, "source [1]/1")
						}
					}
				}
				raw, _ = json.Marshal(v)
			}
			if d.Dst == "alt" && d.Junk == 0 {
				var v any
				_ = json.Unmarshal(raw, &v)
				if m, ok := v.(map[string]any); ok {
					if dg, ok := m["datagram"].(map[string]any); ok {
						if h, ok := dg["header"].(map[string]any); ok {
							if dst, ok := h["addressDestination"].(map[string]any); ok {
								dst["entity"] = []any{1}
								dst["feature"] = 99
								line.Muts = append(line.Muts, "destination [1]/99")
							}
						}
					}
				}
				raw, _ = json.Marshal(v)
			}
			line.Outcome, line.Frame = deliverGuarded(p, raw)
			if line.Outcome == "hung" {
				hung = true
			}
			// afterwards every connected peer still gets its detailed discovery read answered
			line.AllServed = true
			if !hung {
				for _, pn := range []string{"p1", "p2"} {
					q := s.peers[pn]
					q.w.drain()
					rd, _ := json.Marshal(model.Datagram{Datagram: model.DatagramType{Header: model.HeaderType{SpecificationVersion: ptr(model.SpecificationVersionType("1.3.0")),
						AddressSource: s.remoteAddr(q, "nm"), AddressDestination: s.nmLocal(), MsgCounter: ptr(model.MsgCounterType(900000 + uint64(n*10+i))), CmdClassifier: ptr(model.CmdClassifierTypeRead)},
						Payload: model.PayloadType{Cmd: []model.CmdType{{NodeManagementDetailedDiscoveryData: &model.NodeManagementDetailedDiscoveryDataType{}}}}}})
					oc, _ := deliverGuarded(q, rd)
					served := false
					if oc == "returned" {
						for _, m := range q.w.drain() {
							if strings.Contains(string(m), `"cmdClassifier":"reply"`) && strings.Contains(string(m), "nodeManagementDetailedDiscoveryData") {
								served = true
							}
						}
					}
					// ... and valid calls that need the registries' locks return as well
					for _, cmd := range []model.CmdType{{NodeManagementSubscriptionData: &model.NodeManagementSubscriptionDataType{}}, {NodeManagementBindingData: &model.NodeManagementBindingDataType{}}} {
						q.ctr++
						cd, _ := json.Marshal(model.Datagram{Datagram: model.DatagramType{Header: model.HeaderType{SpecificationVersion: ptr(model.SpecificationVersionType("1.3.0")),
							AddressSource: s.remoteAddr(q, "nm"), AddressDestination: s.nmLocal(), MsgCounter: ptr(model.MsgCounterType(q.ctr)), CmdClassifier: ptr(model.CmdClassifierTypeCall)},
							Payload: model.PayloadType{Cmd: []model.CmdType{cmd}}}})
						if oc2, _ := deliverGuarded(q, cd); oc2 != "returned" {
							served = false
							if oc2 == "hung" {
								hung = true
								line.Outcome = "hung"
							}
						}
					}
					q.w.drain()
					line.Served[pn] = served
					if !served {
						line.AllServed = false
					}
				}
			} else {
				line.AllServed = false
			}
			must(enc.Encode(line))
			n++
			if hung {
				break
			}
		}
		if !hung {
			// tearing the connections down must not block either
			closed := make(chan struct{})
			go func() { s.Close(); close(closed) }()
			select {
			case <-closed:
			case <-time.After(3 * time.Second):
				must(enc.Encode(RLine{Phase: c.Phase, Step: len(c.Seq), Tmpl: "teardown", Muts: []string{}, Outcome: "hung", Served: map[string]bool{}, Case: append(json.RawMessage{}, sc.Bytes()...)}))
				n++
			}
		}
	}
	fmt.Printf("{\"deliveries\": %d}\n", n)
}

func deliverGuarded(p *Peer, raw []byte) (outcome, frame string) {
	done := make(chan [2]string, 1)
	go func() {
		defer func() {
			if r := recover(); r != nil {
				done <- [2]string{"panicked", topFrame(debugStack())}
				return
			}
			done <- [2]string{"returned", ""}
		}()
		if p.reader != nil {
			p.reader.HandleShipPayloadMessage(raw)
		}
	}()
	select {
	case r := <-done:
		return r[0], r[1]
	case <-time.After(3 * time.Second):
		return "hung", ""
	}
}

// byte-level junk variants of a valid message
func junk(raw []byte, k int) []byte {
	switch k {
	case 1:
		return raw[:len(raw)/2]
	case 2:
		return raw[:len(raw)-1]
	case 3:
		return []byte("{}")
	case 4:
		return []byte(`{"datagram":null}`)
	case 5:
		return []byte(`{"datagram":{"header":null,"payload":null}}`)
	case 6:
		return []byte(`[1,2,3]`)
	case 7:
		return []byte(strings.Replace(string(raw), `"cmd":[`, `"cmd":[[],`, 1))
	case 8:
		return []byte(`{"datagram":{"header":{},"payload":{"cmd":[{}]}}}`)
	case 9:
		return append([]byte{0xff, 0xfe, 0x00}, raw...)
	case 10:
		return []byte(strings.Replace(string(raw), `"cmd":[`, `"cmd":[null,`, 1))
	case 11:
		return []byte("")
	case 12:
		return []byte(strings.Repeat("[", 5000))
	}
	return raw
}
