package main

// Gate scheduler: forces a TLC-produced schedule onto real goroutines.  Every model process is one goroutine; at a
// gated hook point (spine.verifPoint under -tags verif) the goroutine parks until the schedule gives it the next
// step.  Exactly one process runs at a time, so a realised schedule is deterministic.

import (
	"bytes"
	"fmt"
	"runtime"
	"strconv"
	"sync"
	"sync/atomic"
	"time"

	"github.com/enbility/spine-go/spine"
)

func curGid() uint64 {
	b := make([]byte, 64)
	b = b[:runtime.Stack(b, false)]
	b = bytes.TrimPrefix(b, []byte("goroutine "))
	b = b[:bytes.IndexByte(b, ' ')]
	n, _ := strconv.ParseUint(string(b), 10, 64)
	return n
}

type HookEvent struct {
	Seq   int64  `json:"seq"`
	Proc  string `json:"proc"`
	Point string `json:"point"`
	Args  string `json:"args"`
}

type sproc struct {
	name    string
	fn      func()
	gates   map[string]bool
	gate    chan struct{}
	arrive  chan string // point name, or "" when finished
	started bool
	done    bool
	parked  string
	panicV  string
}

type Sched struct {
	mu       sync.Mutex
	procs    map[string]*sproc
	byGid    map[uint64]*sproc
	events   []HookEvent
	seq      int64
	classify func(point string, args []any) string // names the process of a goroutine the harness did not start (timers)
	watchdog time.Duration
}

func NewSched() *Sched {
	s := &Sched{procs: map[string]*sproc{}, byGid: map[uint64]*sproc{}, watchdog: 300 * time.Millisecond}
	spine.VerifSetHook(s.hook)
	return s
}
func (s *Sched) Close() { spine.VerifSetHook(nil) }

// Add registers a model process: fn runs in its own goroutine when first scheduled; it parks at the given points
func (s *Sched) Add(name string, gates []string, fn func()) {
	p := &sproc{name: name, fn: fn, gates: map[string]bool{}, gate: make(chan struct{}), arrive: make(chan string, 4)}
	for _, g := range gates {
		p.gates[g] = true
	}
	s.mu.Lock()
	s.procs[name] = p
	s.mu.Unlock()
}

func (s *Sched) hook(point string, args ...any) {
	gid := curGid()
	s.mu.Lock()
	p := s.byGid[gid]
	if p == nil && s.classify != nil {
		if name := s.classify(point, args); name != "" {
			if q, ok := s.procs[name]; ok && !q.started {
				p = q
				p.started = true
				s.byGid[gid] = p
			}
		}
	}
	ev := HookEvent{Seq: atomic.AddInt64(&s.seq, 1), Point: point, Args: fmt.Sprint(args...)}
	if p != nil {
		ev.Proc = p.name
	}
	s.events = append(s.events, ev)
	gated := p != nil && p.gates[point]
	s.mu.Unlock()
	if gated {
		p.arrive <- point
		<-p.gate
	}
}

// Step lets process name take its next step: start it, or release it from the point where it is parked; returns the
// point where it parked next ("" = the process finished) and ok=false if it neither parked nor finished in time
// (blocked on a lock held by a parked process: the code is more atomic than the model)
func (s *Sched) Step(name string) (at string, ok bool) {
	s.mu.Lock()
	p := s.procs[name]
	s.mu.Unlock()
	if p == nil {
		return "", false
	}
	if p.done {
		return "", true
	}
	if !p.started {
		p.started = true
		go func() {
			s.mu.Lock()
			s.byGid[curGid()] = p
			s.mu.Unlock()
			defer func() {
				if r := recover(); r != nil {
					p.panicV = fmt.Sprint(r)
				}
				p.arrive <- ""
			}()
			p.fn()
		}()
	} else if p.parked != "" {
		p.parked = ""
		p.gate <- struct{}{}
	} else {
		// started by the stack itself (timer) and not yet arrived, or still running: just wait
	}
	select {
	case at = <-p.arrive:
		if at == "" {
			p.done = true
		} else {
			p.parked = at
		}
		return at, true
	case <-time.After(s.watchdog):
		return "", false
	}
}

// WaitArrive waits for a process that the stack starts on its own (a timer) to park at its gate
func (s *Sched) WaitArrive(name string, d time.Duration) bool {
	s.mu.Lock()
	p := s.procs[name]
	s.mu.Unlock()
	if p == nil || p.parked != "" {
		return p != nil
	}
	select {
	case at := <-p.arrive:
		if at == "" {
			p.done = true
		} else {
			p.parked = at
		}
		return true
	case <-time.After(d):
		return false
	}
}

// Drain releases every parked process and waits for all started ones to finish
func (s *Sched) Drain() bool {
	ok := true
	for i := 0; i < 50; i++ {
		pending := false
		s.mu.Lock()
		var ps []*sproc
		for _, p := range s.procs {
			ps = append(ps, p)
		}
		s.mu.Unlock()
		for _, p := range ps {
			if p.started && !p.done {
				pending = true
				if p.parked != "" {
					p.parked = ""
					p.gate <- struct{}{}
				}
				select {
				case at := <-p.arrive:
					if at == "" {
						p.done = true
					} else {
						p.parked = at
					}
				case <-time.After(2 * time.Second):
				}
			}
		}
		if !pending {
			break
		}
	}
	s.mu.Lock()
	for _, p := range s.procs {
		if p.started && !p.done {
			ok = false
		}
	}
	s.mu.Unlock()
	return ok
}

func (s *Sched) Events() []HookEvent {
	s.mu.Lock()
	defer s.mu.Unlock()
	e := s.events
	s.events = nil
	return e
}
