package main

// Gate scheduler: forces a TLC-produced schedule onto real goroutines.  Every model process is one goroutine; at a
// gated hook point (spine.verifPoint under -tags verif) the goroutine parks until the schedule gives it the next
// step.  Exactly one process runs at a time, so a realised schedule is deterministic.

import (
	"bytes"
	"fmt"
	"os"
	"reflect"
	"runtime"
	"strconv"
	"sync"
	"sync/atomic"
	"time"

	"github.com/enbility/spine-go/spine"
)

func curGid() uint64 {
	b := make([]byte, 64)
	b = b[:runtime.Stack(b, false)]
	b = bytes.TrimPrefix(b, []byte("goroutine "))
	b = b[:bytes.IndexByte(b, ' ')]
	n, _ := strconv.ParseUint(string(b), 10, 64)
	return n
}

type HookEvent struct {
	Seq   int64  `json:"seq"`
	Proc  string `json:"proc"`
	Point string `json:"point"`
	Args  string `json:"args"`
}

type sproc struct {
	name    string
	fn      func()
	gates   map[string]bool
	gate    chan struct{}
	arrive  chan string // point name, or "" when finished
	started bool
	done    bool
	parked  string
	panicV  string
	gid     uint64 // goroutine of the process (0 = not known yet)
}

type Sched struct {
	mu       sync.Mutex
	procs    map[string]*sproc
	byGid    map[uint64]*sproc
	events   []HookEvent
	seq      int64
	classify func(point string, args []any) string // names the process of a goroutine the harness did not start (timers)
	watchdog time.Duration
}

func NewSched() *Sched {
	s := &Sched{procs: map[string]*sproc{}, byGid: map[uint64]*sproc{}, watchdog: 300 * time.Millisecond}
	spine.VerifSetHook(s.hook)
	return s
}
// Close removes the scheduler's hook; if the state tracer of the stack is on (VERIF_SUITE_TRACE) its hook is put back
func (s *Sched) Close() {
	if os.Getenv("VERIF_SUITE_TRACE") != "" {
		spine.VerifSetHook(spine.VerifTraceHook)
		return
	}
	spine.VerifSetHook(nil)
}

// Add registers a model process: fn runs in its own goroutine when first scheduled; it parks at the given points
func (s *Sched) Add(name string, gates []string, fn func()) {
	p := &sproc{name: name, fn: fn, gates: map[string]bool{}, gate: make(chan struct{}), arrive: make(chan string, 4)}
	for _, g := range gates {
		p.gates[g] = true
	}
	s.mu.Lock()
	s.procs[name] = p
	s.mu.Unlock()
}

func (s *Sched) hook(point string, args ...any) {
	spine.VerifTraceHook(point, args...) // (no-op unless the state tracer is on)
	gid := curGid()
	s.mu.Lock()
	p := s.byGid[gid]
	if p == nil && s.classify != nil {
		if name := s.classify(point, args); name != "" {
			if q, ok := s.procs[name]; ok && !q.started {
				p = q
				p.started = true
				p.gid = gid
				s.byGid[gid] = p
			}
		}
	}
	ev := HookEvent{Seq: atomic.AddInt64(&s.seq, 1), Point: point, Args: safeArgs(args)}
	if p != nil {
		ev.Proc = p.name
	}
	s.events = append(s.events, ev)
	gated := p != nil && p.gates[point]
	s.mu.Unlock()
	if gated {
		p.arrive <- point
		<-p.gate
	}
}

// safeArgs renders the arguments of a hook point without looking into objects of the stack (a hook may be handed a
// manager or sender whose fields are being changed by other goroutines): scalars by value, everything else by identity
func safeArgs(args []any) string {
	out := ""
	for i, a := range args {
		if i > 0 {
			out += " "
		}
		switch v := a.(type) {
		case nil:
			out += "nil"
		case string, bool, int, int64, uint, uint64, uint32, int32, float64, time.Duration:
			out += fmt.Sprint(v)
		default:
			switch reflect.ValueOf(a).Kind() {
			case reflect.Ptr, reflect.Chan, reflect.Map, reflect.Func, reflect.Slice, reflect.UnsafePointer:
				out += fmt.Sprintf("%T@%p", a, a)
			default:
				out += fmt.Sprintf("%T", a)
			}
		}
	}
	return out
}

// Step lets process name take its next step: start it, or release it from the point where it is parked; returns the
// point where it parked next ("" = the process finished) and ok=false if it neither parked nor finished in time
// (blocked on a lock held by a parked process: the code is more atomic than the model)
func (s *Sched) Step(name string) (at string, ok bool) {
	s.mu.Lock()
	p := s.procs[name]
	s.mu.Unlock()
	if p == nil {
		return "", false
	}
	if p.done {
		return "", true
	}
	if !p.started {
		p.started = true
		go func() {
			s.mu.Lock()
			p.gid = curGid()
			s.byGid[p.gid] = p
			s.mu.Unlock()
			defer func() {
				if r := recover(); r != nil {
					p.panicV = fmt.Sprint(r)
				}
				p.arrive <- ""
			}()
			p.fn()
		}()
	} else if p.parked != "" {
		p.parked = ""
		p.gate <- struct{}{}
	} else {
		// started by the stack itself (timer) and not yet arrived, or still running: just wait
	}
	select {
	case at = <-p.arrive:
		if at == "" {
			p.done = true
		} else {
			p.parked = at
		}
		return at, true
	case <-time.After(s.watchdog):
		return "", false
	}
}

// goroutineAlive reports whether the goroutine with this id still exists (read from the runtime's own goroutine dump, so
// it does not depend on how many other goroutines come and go meanwhile)
func goroutineAlive(gid uint64) bool {
	if gid == 0 {
		return true
	}
	buf := make([]byte, 1<<16)
	for {
		n := runtime.Stack(buf, true)
		if n < len(buf) {
			buf = buf[:n]
			break
		}
		buf = make([]byte, 2*len(buf))
	}
	needle := []byte("goroutine " + strconv.FormatUint(gid, 10) + " [")
	return bytes.HasPrefix(buf, needle) || bytes.Contains(buf, append([]byte("\n"), needle...))
}

// WaitParkOrExit waits until a process that was just released parks at its next gated point (returns the point) or its
// goroutine has ended (returns ""); ok=false if neither happened within d
func (s *Sched) WaitParkOrExit(p *sproc, d time.Duration) (at string, ok bool) {
	deadline := time.Now().Add(d)
	for {
		select {
		case at = <-p.arrive:
			return at, true
		default:
		}
		if !goroutineAlive(p.gid) {
			// it may have parked and been counted as gone never: an arrival is sent before the goroutine blocks, so look once more
			select {
			case at = <-p.arrive:
				return at, true
			default:
			}
			return "", true
		}
		if time.Now().After(deadline) {
			return "", false
		}
		time.Sleep(100 * time.Microsecond)
	}
}

// WaitArrive waits for a process that the stack starts on its own (a timer) to park at its gate
func (s *Sched) WaitArrive(name string, d time.Duration) bool {
	s.mu.Lock()
	p := s.procs[name]
	s.mu.Unlock()
	if p == nil || p.parked != "" {
		return p != nil
	}
	select {
	case at := <-p.arrive:
		if at == "" {
			p.done = true
		} else {
			p.parked = at
		}
		return true
	case <-time.After(d):
		return false
	}
}

// Drain releases every parked process and waits for all started ones to finish
func (s *Sched) Drain() bool {
	ok := true
	for i := 0; i < 50; i++ {
		pending := false
		s.mu.Lock()
		var ps []*sproc
		for _, p := range s.procs {
			ps = append(ps, p)
		}
		s.mu.Unlock()
		for _, p := range ps {
			if p.started && !p.done {
				pending = true
				if p.parked != "" {
					p.parked = ""
					p.gate <- struct{}{}
				}
				select {
				case at := <-p.arrive:
					if at == "" {
						p.done = true
					} else {
						p.parked = at
					}
				case <-time.After(2 * time.Second):
				}
			}
		}
		if !pending {
			break
		}
	}
	s.mu.Lock()
	for _, p := range s.procs {
		if p.started && !p.done {
			ok = false
		}
	}
	s.mu.Unlock()
	return ok
}

func (s *Sched) Events() []HookEvent {
	s.mu.Lock()
	defer s.mu.Unlock()
	e := s.events
	s.events = nil
	return e
}
