package main

// Drivers for the Sender contract (C13): the real spine.Sender on a recording writer.

import (
	"bufio"
	"bytes"
	"encoding/json"
	"flag"
	"fmt"
	"math/rand"
	"os"
	"strconv"
	"strings"
	"sync"
	"sync/atomic"

	"github.com/enbility/spine-go/api"
	"github.com/enbility/spine-go/model"
	"github.com/enbility/spine-go/spine"
)

type SenderLine struct {
	Op    string   `json:"op"`
	R     string   `json:"r"`
	Kind  string   `json:"kind"`
	Ref   uint64   `json:"ref"`
	C     uint64   `json:"c"`
	Res   string   `json:"res"`
	Ret   uint64   `json:"ret"`
	Wire  []uint64 `json:"wire"`
	Match bool     `json:"match"`
}

func sAddr(dev string, ent, feat uint) *model.FeatureAddressType {
	d := model.AddressDeviceType(dev)
	f := model.AddressFeatureType(feat)
	return &model.FeatureAddressType{Device: &d, Entity: []model.AddressEntityType{model.AddressEntityType(ent)}, Feature: &f}
}

// identity "d<i>c<j>": destination feature i, read command with selector j;  "S<i>" subscribe to i, "U<i>" unsubscribe,
// "B<i>" bind, "X<i>" unbind
func parseIdent(r string) (kind byte, i, j int) {
	if r == "a" {
		return 'd', 1, 1
	}
	if r == "b" {
		return 'd', 1, 2
	}
	if r == "c" {
		return 'd', 2, 1
	}
	kind = r[0]
	rest := r[1:]
	if kind == 'd' {
		parts := strings.SplitN(rest, "c", 2)
		i, _ = strconv.Atoi(parts[0])
		if len(parts) > 1 {
			j, _ = strconv.Atoi(parts[1])
		}
		return
	}
	i, _ = strconv.Atoi(rest)
	return
}

func readCmd(j int) model.CmdType {
	cmd := model.CmdType{LoadControlLimitListData: &model.LoadControlLimitListDataType{}}
	f := model.FilterType{CmdControl: &model.CmdControlType{Partial: &model.ElementTagType{}},
		LoadControlLimitListDataSelectors: &model.LoadControlLimitListDataSelectorsType{LimitId: ptr(model.LoadControlLimitIdType(j))}}
	cmd.Filter = []model.FilterType{f}
	return cmd
}

type senderSUT struct {
	w   *Writer
	snd api.SenderInterface
	src *model.FeatureAddressType
	// a notification that could not be retrieved by its counter at the moment it was written to the connection (the peer
	// may refer to it as soon as it has it)
	notRetrievable atomic.Int64
}

func newSenderSUT() *senderSUT {
	w := &Writer{}
	s := &senderSUT{w: w, src: sAddr("d:local", 1, 1)}
	s.snd = spine.NewSender(w)
	w.onWrite = func(raw []byte) {
		if !bytes.Contains(raw, []byte(`"cmdClassifier":"notify"`)) {
			return
		}
		var d model.Datagram
		if json.Unmarshal(raw, &d) != nil || d.Datagram.Header.MsgCounter == nil {
			return
		}
		if _, err := s.snd.DatagramForMsgCounter(*d.Datagram.Header.MsgCounter); err != nil {
			s.notRetrievable.Add(1)
		}
	}
	return s
}

func (s *senderSUT) wire() (ctrs []uint64, dgs []model.DatagramType) {
	ctrs = []uint64{}
	for _, raw := range s.w.drain() {
		var d model.Datagram
		if err := json.Unmarshal(raw, &d); err != nil || d.Datagram.Header.MsgCounter == nil {
			ctrs = append(ctrs, 0)
			dgs = append(dgs, model.DatagramType{})
			continue
		}
		ctrs = append(ctrs, uint64(*d.Datagram.Header.MsgCounter))
		dgs = append(dgs, d.Datagram)
	}
	return
}

func sameJSON(a, b any) bool {
	x, _ := json.Marshal(a)
	y, _ := json.Marshal(b)
	return string(x) == string(y)
}

func (s *senderSUT) call(a Action) SenderLine {
	l := SenderLine{Op: a.str("op"), R: a.str("r"), Kind: a.str("kind"), Ref: uint64(a.num("ref")), C: uint64(a.num("c")), Wire: []uint64{}, Match: true}
	switch l.Op {
	case "request":
		kind, i, j := parseIdent(l.R)
		dst := sAddr("d:peer", 1, uint(i))
		var ctr *model.MsgCounterType
		var err error
		var wantCls model.CmdClassifierType
		var wantCmd any
		switch kind {
		case 'd':
			cmd := readCmd(j)
			ctr, err = s.snd.Request(model.CmdClassifierTypeRead, s.src, dst, false, []model.CmdType{cmd})
			wantCls, wantCmd = model.CmdClassifierTypeRead, []model.CmdType{cmd}
		case 'S':
			ctr, err = s.snd.Subscribe(s.src, dst, model.FeatureTypeTypeLoadControl)
			wantCls = model.CmdClassifierTypeCall
		case 'U':
			ctr, err = s.snd.Unsubscribe(s.src, dst)
			wantCls = model.CmdClassifierTypeCall
		case 'B':
			ctr, err = s.snd.Bind(s.src, dst, model.FeatureTypeTypeLoadControl)
			wantCls = model.CmdClassifierTypeCall
		case 'X':
			ctr, err = s.snd.Unbind(s.src, dst)
			wantCls = model.CmdClassifierTypeCall
		}
		ctrs, dgs := s.wire()
		l.Wire = ctrs
		if err != nil || ctr == nil {
			l.Res = "error"
			break
		}
		l.Ret = uint64(*ctr)
		if len(ctrs) == 0 {
			l.Res = "withheld"
		} else {
			l.Res = "sent"
			d := dgs[0]
			l.Match = d.Header.CmdClassifier != nil && *d.Header.CmdClassifier == wantCls &&
				(wantCmd == nil || sameJSON(d.Payload.Cmd, wantCmd)) &&
				(kind != 'd' || sameJSON(d.Header.AddressDestination, dst))
		}
	case "response":
		ref := model.MsgCounterType(l.Ref)
		s.snd.ProcessResponseForMsgCounterReference(&ref)
		l.Res, l.Ret = "ok", l.Ref
		l.Wire, _ = s.wire()
	case "send":
		dst := sAddr("d:peer", 1, 1)
		cmd := model.CmdType{LoadControlLimitListData: &model.LoadControlLimitListDataType{}}
		reqHdr := &model.HeaderType{AddressSource: dst, AddressDestination: s.src, MsgCounter: ptr(model.MsgCounterType(7))}
		var ctr *model.MsgCounterType
		var err error
		want := model.CmdClassifierType(l.Kind)
		switch l.Kind {
		case "notify":
			ctr, err = s.snd.Notify(s.src, dst, cmd)
		case "write":
			ctr, err = s.snd.Write(s.src, dst, cmd)
		case "reply":
			err = s.snd.Reply(reqHdr, s.src, cmd)
		case "result":
			err = s.snd.ResultSuccess(reqHdr, s.src)
		}
		ctrs, dgs := s.wire()
		l.Wire = ctrs
		if err != nil || len(ctrs) != 1 {
			l.Res = "error"
			break
		}
		l.Res = "sent"
		l.Ret = ctrs[0]
		if ctr != nil && uint64(*ctr) != ctrs[0] {
			l.Match = false
		}
		if dgs[0].Header.CmdClassifier == nil || *dgs[0].Header.CmdClassifier != want {
			l.Match = false
		}
	case "lookup":
		d, err := s.snd.DatagramForMsgCounter(model.MsgCounterType(l.C))
		l.Ret = l.C
		if err != nil {
			l.Res = "notfound"
		} else {
			l.Res = "found"
			l.Match = d.Header.MsgCounter != nil && uint64(*d.Header.MsgCounter) == l.C &&
				d.Header.CmdClassifier != nil && *d.Header.CmdClassifier == model.CmdClassifierTypeNotify
		}
		l.Wire, _ = s.wire()
	default:
		panic("sender op " + l.Op)
	}
	if s.notRetrievable.Swap(0) > 0 {
		l.Match = false // on the wire, but not retrievable by its counter
	}
	return l
}

func senderReplay(args []string) {
	fs := flag.NewFlagSet("sender-replay", flag.ExitOnError)
	inF := fs.String("in", "", "behaviours ndjson")
	outF := fs.String("out", "", "trace ndjson")
	must(fs.Parse(args))
	in, err := os.Open(*inF)
	must(err)
	defer in.Close()
	out, err := os.Create(*outF)
	must(err)
	defer out.Close()
	w := bufio.NewWriterSize(out, 1<<20)
	defer w.Flush()
	enc := json.NewEncoder(w)
	sc := bufio.NewScanner(in)
	sc.Buffer(make([]byte, 1<<20), 1<<28)
	nb, ns := 0, 0
	for sc.Scan() {
		var beh []Action
		must(json.Unmarshal(sc.Bytes(), &beh))
		must(enc.Encode(map[string]string{"op": "reset"}))
		s := newSenderSUT()
		for _, a := range beh {
			must(enc.Encode(s.call(a)))
			ns++
		}
		nb++
	}
	fmt.Printf("{\"behaviours\": %d, \"steps\": %d}\n", nb, ns)
}

// sender-gen: long seeded call sequences (inputs only) that reach the real constants: more than 20 unanswered
// requests, more than 100 notifications with lookups in between, thousands of distinct unanswered requests
func senderGen(args []string) {
	fs := flag.NewFlagSet("sender-gen", flag.ExitOnError)
	seed := fs.Int64("seed", 1, "")
	n := fs.Int("n", 20, "behaviours")
	long := fs.Int("long", 2500, "distinct unanswered requests in the boundedness behaviour")
	must(fs.Parse(args))
	rnd := rand.New(rand.NewSource(*seed))
	enc := json.NewEncoder(os.Stdout)
	req := func(r string) Action { return Action{"op": "request", "r": r} }
	// 1. boundedness: many distinct unanswered requests, then the first ones again
	{
		var b []Action
		for i := 1; i <= *long; i++ {
			b = append(b, req(fmt.Sprintf("d1c%d", i)))
		}
		for i := 1; i <= 5; i++ {
			b = append(b, req(fmt.Sprintf("d1c%d", i)))
		}
		must(enc.Encode(b))
	}
	// 2. 19..23 unanswered requests, repeats of old and young ones, responses in between
	for k := 17; k <= 24; k++ {
		var b []Action
		for i := 1; i <= k; i++ {
			b = append(b, req(fmt.Sprintf("d%dc%d", 1+i%3, i)))
		}
		for _, i := range []int{1, 2, k, k - 1, 3} {
			b = append(b, req(fmt.Sprintf("d%dc%d", 1+i%3, i)))
		}
		b = append(b, Action{"op": "response", "ref": 3}, req("d1c3"), Action{"op": "response", "ref": k}, req(fmt.Sprintf("d%dc%d", 1+k%3, k)))
		must(enc.Encode(b))
	}
	// 3. notification windows around 100 with lookups (also of old ones, repeatedly)
	for _, total := range []int{99, 100, 101, 130, 250} {
		var b []Action
		for i := 1; i <= total; i++ {
			b = append(b, Action{"op": "send", "kind": "notify"})
			if i%37 == 0 {
				b = append(b, Action{"op": "lookup", "c": 1 + rnd.Intn(i)}, Action{"op": "send", "kind": "write"})
			}
		}
		for i := 0; i < 60; i++ {
			b = append(b, Action{"op": "lookup", "c": 1 + rnd.Intn(total+5)})
		}
		for i := total; i > 0 && i > total-110; i-- {
			b = append(b, Action{"op": "lookup", "c": i})
		}
		must(enc.Encode(b))
	}
	// 4. random mixes
	for k := 0; k < *n; k++ {
		var b []Action
		steps := 200 + rnd.Intn(400)
		ctrGuess := 0
		for i := 0; i < steps; i++ {
			switch x := rnd.Intn(10); {
			case x < 4:
				kinds := []string{"d", "d", "d", "S", "U", "B", "X"}
				kd := kinds[rnd.Intn(len(kinds))]
				if kd == "d" {
					b = append(b, req(fmt.Sprintf("d%dc%d", 1+rnd.Intn(2), 1+rnd.Intn(30))))
				} else {
					b = append(b, req(fmt.Sprintf("%s%d", kd, 1+rnd.Intn(3))))
				}
				ctrGuess++
			case x < 6:
				b = append(b, Action{"op": "response", "ref": rnd.Intn(ctrGuess + 3)})
			case x < 8:
				b = append(b, Action{"op": "send", "kind": []string{"notify", "notify", "write", "reply", "result"}[rnd.Intn(5)]})
				ctrGuess++
			default:
				b = append(b, Action{"op": "lookup", "c": rnd.Intn(ctrGuess + 3)})
			}
		}
		must(enc.Encode(b))
	}
}

// ---- free-running concurrent use of one Sender: call start/end order and counters ----

type ConcCall struct {
	G     int    `json:"g"`
	Kind  string `json:"kind"`
	Start int64  `json:"start"`
	End   int64  `json:"end"`
	Ret   uint64 `json:"ret"`
	Sent  bool   `json:"sent"` // a counter was returned
	Key   int    `json:"key"`  // requests: which request (identical requests share the key); 0 otherwise
}

// senderForced: one call parked at the hook point after it drew its counter (a withheld duplicate request draws none
// and is never parked), another call run meanwhile, a third one afterwards; one round per kind of parked call
func senderForced(enc *json.Encoder) {
	dst := sAddr("d:peer", 1, 1)
	cmd := model.CmdType{LoadControlLimitListData: &model.LoadControlLimitListDataType{}}
	for _, holder := range []string{"duprequest", "request", "notify", "write"} {
		s := newSenderSUT()
		var calls []ConcCall
		rec := func(kind string, key int, start, end int64, ctr *model.MsgCounterType) {
			c := ConcCall{G: len(calls), Kind: kind, Key: key, Start: start, End: end}
			if ctr != nil {
				c.Ret, c.Sent = uint64(*ctr), true
			}
			calls = append(calls, c)
		}
		c0, _ := s.snd.Request(model.CmdClassifierTypeRead, s.src, dst, false, []model.CmdType{readCmd(1)})
		rec("request", 1, 1, 2, c0)
		sched := NewSched()
		var hc *model.MsgCounterType
		hk, hkey := holder, 0
		sched.Add("H", []string{"Sender.counter"}, func() {
			switch holder {
			case "duprequest":
				hk, hkey = "request", 1
				hc, _ = s.snd.Request(model.CmdClassifierTypeRead, s.src, dst, false, []model.CmdType{readCmd(1)})
			case "request":
				hkey = 2
				hc, _ = s.snd.Request(model.CmdClassifierTypeRead, s.src, dst, false, []model.CmdType{readCmd(2)})
			case "notify":
				hc, _ = s.snd.Notify(s.src, dst, cmd)
			case "write":
				hc, _ = s.snd.Write(s.src, dst, cmd)
			}
		})
		sched.Step("H")
		c1, _ := s.snd.Notify(s.src, dst, cmd)
		sched.Drain()
		sched.Close()
		rec(hk, hkey, 3, 8, hc)
		rec("notify", 0, 4, 5, c1)
		c2, _ := s.snd.Notify(s.src, dst, cmd)
		rec("notify", 0, 9, 10, c2)
		c3, _ := s.snd.Write(s.src, dst, cmd)
		rec("write", 0, 11, 12, c3)
		wire, _ := s.wire()
		must(enc.Encode(map[string]any{"calls": calls, "wire": wire, "forced": holder}))
	}
}

func senderStress(args []string) {
	fs := flag.NewFlagSet("sender-stress", flag.ExitOnError)
	seed := fs.Int64("seed", 1, "")
	gor := fs.Int("g", 16, "goroutines")
	ops := fs.Int("ops", 40, "calls per goroutine")
	rounds := fs.Int("rounds", 5, "")
	outF := fs.String("out", "", "trace")
	must(fs.Parse(args))
	out, err := os.Create(*outF)
	must(err)
	defer out.Close()
	enc := json.NewEncoder(out)
	senderForced(enc)
	for r := 0; r < *rounds; r++ {
		s := newSenderSUT()
		var seq int64
		var mu sync.Mutex
		var calls []ConcCall
		var wg sync.WaitGroup
		for g := 0; g < *gor; g++ {
			wg.Add(1)
			go func(g int) {
				defer wg.Done()
				rnd := rand.New(rand.NewSource(*seed*1000 + int64(r*100+g)))
				dst := sAddr("d:peer", 1, 1)
				cmd := model.CmdType{LoadControlLimitListData: &model.LoadControlLimitListDataType{}}
				for i := 0; i < *ops; i++ {
					c := ConcCall{G: g}
					var ctr *model.MsgCounterType
					c.Start = atomic.AddInt64(&seq, 1)
					switch rnd.Intn(5) {
					case 0:
						c.Kind = "request"
						// distinct per goroutine and call (always sent), or one of three requests all goroutines repeat
						// (withheld while an identical one is unanswered: the earlier counter is returned)
						c.Key = g*100000 + r*1000 + i + 10
						if rnd.Intn(2) == 0 {
							c.Key = 1 + rnd.Intn(3)
						}
						ctr, _ = s.snd.Request(model.CmdClassifierTypeRead, s.src, dst, false, []model.CmdType{readCmd(c.Key)})
					case 1:
						c.Kind = "notify"
						ctr, _ = s.snd.Notify(s.src, dst, cmd)
					case 2:
						c.Kind = "write"
						ctr, _ = s.snd.Write(s.src, dst, cmd)
					case 3:
						c.Kind = "subscribe"
						ctr, _ = s.snd.Subscribe(s.src, sAddr("d:peer", 1, uint(g*1000+i)), model.FeatureTypeTypeLoadControl)
					case 4:
						c.Kind = "bind"
						ctr, _ = s.snd.Bind(s.src, sAddr("d:peer", 2, uint(g*1000+i)), model.FeatureTypeTypeLoadControl)
					}
					c.End = atomic.AddInt64(&seq, 1)
					if ctr != nil {
						c.Ret = uint64(*ctr)
						c.Sent = true
					}
					mu.Lock()
					calls = append(calls, c)
					mu.Unlock()
				}
			}(g)
		}
		wg.Wait()
		wire, _ := s.wire()
		must(enc.Encode(map[string]any{"calls": calls, "wire": wire}))
	}
}
