package main

// System under test: a real spine DeviceLocal assembled through public constructors,
// with in-process peers that own the SHIP writer given to the stack and feed the
// reader the stack returned.  Nothing is mocked.

import (
	"encoding/json"
	"fmt"
	"runtime"
	"sort"
	"strconv"
	"strings"
	"sync"
	"time"

	shipapi "github.com/enbility/ship-go/api"
	"github.com/enbility/spine-go/api"
	"github.com/enbility/spine-go/model"
	"github.com/enbility/spine-go/spine"
)

const localDevAddr = "d:local"

// ---------- topology (printed by TLC from spec/SpineCore.tla, read here) ----------

type FeatInfo struct {
	Ent  string `json:"ent"`
	Type string `json:"type"`
	Role string `json:"role"`
}
type OpsInfo struct {
	R bool `json:"r"`
	W bool `json:"w"`
}
type Topo struct {
	Peers  []string                      `json:"peers"`
	LF     map[string]FeatInfo           `json:"lf"`
	LFnRaw map[string]json.RawMessage    `json:"lfn"`
	RF     map[string]FeatInfo           `json:"rf"`
	LFn    map[string]map[string]OpsInfo `json:"-"`
}

func parseTopo(b []byte) (*Topo, error) {
	t := &Topo{}
	if err := json.Unmarshal(b, t); err != nil {
		return nil, err
	}
	t.LFn = map[string]map[string]OpsInfo{}
	for k, raw := range t.LFnRaw {
		m := map[string]OpsInfo{}
		if len(raw) > 0 && raw[0] == '{' {
			if err := json.Unmarshal(raw, &m); err != nil {
				return nil, err
			}
		}
		t.LFn[k] = m
	}
	sort.Strings(t.Peers)
	return t, nil
}

// abstract function names -> concrete functions
var fnMap = map[string]model.FunctionType{
	"limit":  model.FunctionTypeLoadControlLimitListData,
	"ldesc":  model.FunctionTypeLoadControlLimitDescriptionListData,
	"kv":     model.FunctionTypeDeviceConfigurationKeyValueListData,
	"kvdesc": model.FunctionTypeDeviceConfigurationKeyValueDescriptionListData,
	"mfr":    model.FunctionTypeDeviceClassificationManufacturerData,
	"hb":     model.FunctionTypeDeviceDiagnosisHeartbeatData,
	"meas":   model.FunctionTypeMeasurementListData,
}

func fnAbs(f model.FunctionType) string {
	for k, v := range fnMap {
		if v == f {
			return k
		}
	}
	switch f {
	case model.FunctionTypeNodeManagementSubscriptionData:
		return "subdata"
	case model.FunctionTypeNodeManagementBindingData:
		return "binddata"
	case model.FunctionTypeNodeManagementDetailedDiscoveryData:
		return "discovery"
	case model.FunctionTypeNodeManagementUseCaseData:
		return "usecase"
	case model.FunctionTypeNodeManagementDestinationListData:
		return "destlist"
	case model.FunctionTypeResultData:
		return "result"
	}
	return string(f)
}

func entAddr(s string) []model.AddressEntityType {
	var r []model.AddressEntityType
	for _, p := range strings.Split(s, ".") {
		n, _ := strconv.Atoi(p)
		r = append(r, model.AddressEntityType(n))
	}
	return r
}
func entStr(a []model.AddressEntityType) string {
	var s []string
	for _, x := range a {
		s = append(s, fmt.Sprintf("%d", x))
	}
	return strings.Join(s, ".")
}

// remote feature names encode their address: <letter(s)><entity digit><feature digit>; "nm" = [0]:0
func remoteNameAddr(name string) (ent string, feat uint) {
	if name == "nm" {
		return "0", 0
	}
	if name[0] == 'n' { // nested entity [1,1]
		return "1.1", uint(name[len(name)-1] - '0')
	}
	n := len(name)
	return string(name[n-2]), uint(name[n-1] - '0')
}

// ---------- writer ----------

type Writer struct {
	mu      sync.Mutex
	msgs    [][]byte
	onWrite func([]byte) // optional: called first (a slow connection blocks here)
}

func (w *Writer) WriteShipMessageWithPayload(msg []byte) {
	if w.onWrite != nil {
		w.onWrite(msg)
	}
	w.mu.Lock()
	defer w.mu.Unlock()
	c := make([]byte, len(msg))
	copy(c, msg)
	w.msgs = append(w.msgs, c)
}
func (w *Writer) drain() [][]byte {
	w.mu.Lock()
	defer w.mu.Unlock()
	m := w.msgs
	w.msgs = nil
	return m
}

var _ shipapi.ShipConnectionDataWriterInterface = (*Writer)(nil)

// ---------- peer ----------

type Peer struct {
	name    string
	ski     string
	devAddr string
	w       *Writer
	reader  shipapi.ShipConnectionDataReaderInterface
	ctr     uint64            // message counter of datagrams this peer sends
	lastReq map[string]uint64 // function -> counter of the last request the stack sent us
}

// ---------- system ----------

type System struct {
	topo   *Topo
	dev    *spine.DeviceLocal
	lents  map[string]api.EntityLocalInterface
	lfeat  map[string]api.FeatureLocalInterface
	lname  map[string]string // "ent/feat" -> abstract name
	peers  map[string]*Peer
	skiTo  map[string]string
	evMu   sync.Mutex
	events []AbsEvent
	sysId  int
	obs    *coreObserver
	connMu sync.RWMutex // concurrent drivers: guards Peer.reader
	ctrMu  sync.Mutex   // concurrent drivers: guards Peer.ctr
	// C14
	idCtr       []uint64 // id -> message counter, in order of first appearance
	cbMu        sync.Mutex
	cbLog       []CbFire
	curRecv     Action
	baseG       int
	needOffsets bool
	ucSnaps     []ucSnap
}

// announceOk: every local feature announces (detailed discovery information) exactly the operations it was configured with
func (s *System) announceOk() bool {
	for _, ent := range s.dev.Entities() {
		for _, f := range ent.Features() {
			info := f.Information()
			if info == nil || info.Description == nil {
				return false
			}
			ann := map[model.FunctionType][2]bool{}
			for _, sf := range info.Description.SupportedFunction {
				if sf.Function == nil || sf.PossibleOperations == nil {
					return false
				}
				ann[*sf.Function] = [2]bool{sf.PossibleOperations.Read != nil, sf.PossibleOperations.Write != nil}
			}
			ops := f.Operations()
			if len(ann) != len(ops) {
				return false
			}
			for fn, op := range ops {
				if a, ok := ann[fn]; !ok || a[0] != op.Read() || a[1] != op.Write() {
					return false
				}
			}
		}
	}
	return true
}

type ucSnap struct {
	obj  *model.NodeManagementUseCaseDataType
	json string
}

var sysCounter int

type coreObserver struct{ s *System }

func (o *coreObserver) HandleEvent(p api.EventPayload) { o.s.recordEvent(p) }

func NewSystem(topo *Topo) *System {
	sysCounter++
	s := &System{topo: topo, lents: map[string]api.EntityLocalInterface{}, lfeat: map[string]api.FeatureLocalInterface{},
		lname: map[string]string{}, peers: map[string]*Peer{}, skiTo: map[string]string{}, sysId: sysCounter}
	s.dev = spine.NewDeviceLocal("brand", "model", "serial", "code", localDevAddr, model.DeviceTypeTypeEnergyManagementSystem, model.NetworkManagementFeatureSetTypeSmart)
	s.lents["0"] = s.dev.Entity(entAddr("0"))
	// entities other than "0", in name order
	ents := map[string]bool{}
	for _, f := range topo.LF {
		ents[f.Ent] = true
	}
	var el []string
	for e := range ents {
		if e != "0" {
			el = append(el, e)
		}
	}
	sort.Strings(el)
	for _, e := range el {
		ent := spine.NewEntityLocal(s.dev, model.EntityTypeTypeCEM, entAddr(e), time.Second*4)
		s.lents[e] = ent
	}
	var names []string
	for n := range topo.LF {
		names = append(names, n)
	}
	// server features first: S1 of entity [1] and S4 of the nested entity [1,1] then both have feature number 1 (an
	// address comparison that confuses an entity with its parent shows on features with data and subscribers)
	sort.Slice(names, func(i, j int) bool {
		si, sj := topo.LF[names[i]].Role == "server", topo.LF[names[j]].Role == "server"
		if si != sj {
			return si
		}
		return names[i] < names[j]
	})
	for _, n := range names {
		fi := topo.LF[n]
		var f api.FeatureLocalInterface
		switch n {
		case "NM":
			f = s.dev.NodeManagement()
		case "DC":
			f = s.lents["0"].FeatureOfTypeAndRole(model.FeatureTypeTypeDeviceClassification, model.RoleTypeServer)
		default:
			f = s.lents[fi.Ent].GetOrAddFeature(model.FeatureTypeType(fi.Type), model.RoleType(fi.Role))
			var fns []string
			for fn := range topo.LFn[n] {
				fns = append(fns, fn)
			}
			sort.Strings(fns)
			for _, fn := range fns {
				f.AddFunctionType(fnMap[fn], topo.LFn[n][fn].R, topo.LFn[n][fn].W)
			}
		}
		s.lfeat[n] = f
		s.lname[fi.Ent+"/"+fmt.Sprint(uint(*f.Address().Feature))] = n
	}
	// besides the features of the specification's topology there is one the specification does not speak about: a server
	// feature with a write-only and a read-only function; it is only used to compare what the device announces with what
	// was configured (announceOk)
	if ent, ok := s.lents["2"]; ok {
		x := ent.GetOrAddFeature(model.FeatureTypeTypeMeasurement, model.RoleTypeServer)
		x.AddFunctionType(model.FunctionTypeMeasurementListData, false, true)
		x.AddFunctionType(model.FunctionTypeMeasurementDescriptionListData, true, false)
		x.AddFunctionType(model.FunctionTypeMeasurementConstraintsListData, true, true)
	}
	for _, e := range el {
		s.dev.AddEntity(s.lents[e])
	}
	for _, pn := range topo.Peers {
		s.peers[pn] = &Peer{name: pn, ski: fmt.Sprintf("ski-%s-%d", pn, s.sysId), devAddr: "d:" + pn, w: &Writer{}, lastReq: map[string]uint64{}}
		s.skiTo[s.peers[pn].ski] = pn
	}
	s.obs = &coreObserver{s}
	spine.VerifSubscribeCore(s.obs)
	s.baseG = runtime.NumGoroutine()
	return s
}

// Close disconnects every peer (the event bus is process-global: a system that is
// not torn down stays registered and makes later runs quadratic).
func (s *System) Close() {
	defer spine.VerifUnsubscribeCore(s.obs)
	for _, p := range s.peers {
		if s.dev.RemoteDeviceForSki(p.ski) != nil {
			s.dev.RemoveRemoteDeviceConnection(p.ski)
		}
	}
	for _, e := range s.dev.Entities() {
		if hm := e.HeartbeatManager(); hm != nil {
			hm.StopHeartbeat()
		}
	}
}

func (s *System) localAddr(name string) *model.FeatureAddressType {
	dev := model.AddressDeviceType(localDevAddr)
	if f, ok := s.lfeat[name]; ok {
		a := *f.Address()
		return &a
	}
	// unknown local names: X<ent><feat>
	n := len(name)
	feat := model.AddressFeatureType(name[n-1] - '0')
	return &model.FeatureAddressType{Device: &dev, Entity: entAddr(string(name[n-2])), Feature: &feat}
}

func (s *System) remoteAddr(p *Peer, name string) *model.FeatureAddressType {
	dev := model.AddressDeviceType(p.devAddr)
	e, f := remoteNameAddr(name)
	feat := model.AddressFeatureType(f)
	return &model.FeatureAddressType{Device: &dev, Entity: entAddr(e), Feature: &feat}
}

// name of a local feature address as written by the stack ("?" parts flag deviations)
func (s *System) localName(a *model.FeatureAddressType) string {
	if a == nil {
		return "nil"
	}
	n := "?"
	if a.Feature != nil {
		if x, ok := s.lname[entStr(a.Entity)+"/"+fmt.Sprint(uint(*a.Feature))]; ok {
			n = x
		} else {
			n = fmt.Sprintf("X%s%d", entStr(a.Entity), *a.Feature)
		}
	}
	if a.Device == nil {
		return n + "@nodev"
	}
	if string(*a.Device) != localDevAddr {
		return n + "@" + string(*a.Device)
	}
	return n
}

func (s *System) remoteName(p *Peer, a *model.FeatureAddressType) string {
	if a == nil {
		return "nil"
	}
	n := "?"
	if a.Feature != nil {
		e := entStr(a.Entity)
		f := uint(*a.Feature)
		n = fmt.Sprintf("x%s%d", e, f)
		if e == "0" && f == 0 {
			n = "nm"
		}
		for rn := range s.topo.RF {
			re, rf := remoteNameAddr(rn)
			if re == e && rf == f {
				n = rn
			}
		}
	}
	if a.Device == nil {
		// before the discovery reply the stack does not know the peer's device address: its addresses have no device part
		if p != nil {
			if rd := s.dev.RemoteDeviceForSki(p.ski); rd != nil && rd.Address() == nil {
				return n
			}
		}
		return n + "@nodev"
	}
	if p == nil || string(*a.Device) != p.devAddr {
		return n + "@" + string(*a.Device)
	}
	return n
}
