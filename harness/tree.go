package main

// Driver for spec/LocalTree.tla (C07): dynamic local entities / features / functions on the real DeviceLocal, discovery
// reads by a subscribed and an unsubscribed peer, notifications to node-management subscribers.

import (
	"bufio"
	"encoding/json"
	"flag"
	"fmt"
	"os"
	"sort"
	"strings"

	"github.com/enbility/spine-go/api"
	"github.com/enbility/spine-go/model"
	"github.com/enbility/spine-go/spine"
)

type TFn struct {
	Fn string `json:"fn"`
	R  bool   `json:"r"`
	W  bool   `json:"w"`
}
type TFeat struct {
	E    string `json:"e"`
	No   int    `json:"no"`
	Type string `json:"type"`
	Role string `json:"role"`
	Fns  []TFn  `json:"fns"`
	Desc int    `json:"desc"` // version of the description (1 = the default one, 2 = changed by the application)
}
type TNote struct {
	Chg   string  `json:"chg"`
	E     string  `json:"e"`
	Feats []TFeat `json:"feats"`
}
type TTree struct {
	Ents  []string `json:"ents"`
	Feats []TFeat  `json:"feats"`
	None  bool     `json:"none"`
}
type TreeLine struct {
	A        Action             `json:"a"`
	Ret      string             `json:"ret"`
	Reply    TTree              `json:"reply"`
	Notes    map[string][]TNote `json:"notes"`
	Tree     TTree              `json:"tree"`
	StaticOk bool               `json:"staticok"`
	Resolves bool               `json:"resolves"`
	Panic    string             `json:"panic"`
}

var treeFn = map[string]model.FunctionType{"meas": model.FunctionTypeMeasurementListData, "measdesc": model.FunctionTypeMeasurementDescriptionListData,
	"ecdesc": model.FunctionTypeElectricalConnectionDescriptionListData}

func treeFnAbs(f model.FunctionType) string {
	for k, v := range treeFn {
		if v == f {
			return k
		}
	}
	return string(f)
}
func dynamicEnt(e string) bool { return strings.HasPrefix(e, "3") || strings.HasPrefix(e, "4") }

func sortFeats(fs []TFeat) {
	for i := range fs {
		sort.Slice(fs[i].Fns, func(a, b int) bool { return fs[i].Fns[a].Fn < fs[i].Fns[b].Fn })
	}
	sort.Slice(fs, func(i, j int) bool { return fmt.Sprint(fs[i].E, fs[i].No) < fmt.Sprint(fs[j].E, fs[j].No) })
}

func descVersion(d *model.DescriptionType, t, r string) int {
	if d == nil {
		return 0
	}
	switch string(*d) {
	case expectedDesc(t, r):
		return 1
	case expectedDesc(t, r) + " v2":
		return 2
	}
	return 0
}

func expectedDesc(t, r string) string {
	switch r {
	case "client":
		return t + " Client"
	case "server":
		return t + " Server"
	}
	return t
}

// abstract a discovery payload: the dynamic part, and a digest of the rest
func absDiscovery(d *model.NodeManagementDetailedDiscoveryDataType, localDev string) (t TTree, static string) {
	t = TTree{Ents: []string{}, Feats: []TFeat{}}
	var st []string
	for _, ei := range d.EntityInformation {
		if ei.Description == nil || ei.Description.EntityAddress == nil {
			st = append(st, "entity?")
			continue
		}
		e := entStr(ei.Description.EntityAddress.Entity)
		if ei.Description.EntityAddress.Device == nil || string(*ei.Description.EntityAddress.Device) != localDev {
			e += "@baddev"
		}
		if dynamicEnt(e) {
			t.Ents = append(t.Ents, e)
		} else {
			st = append(st, "E"+e)
		}
	}
	for _, fi := range d.FeatureInformation {
		fd := fi.Description
		if fd == nil || fd.FeatureAddress == nil || fd.FeatureAddress.Feature == nil || fd.FeatureType == nil || fd.Role == nil {
			st = append(st, "feature?")
			continue
		}
		e := entStr(fd.FeatureAddress.Entity)
		f := TFeat{E: e, No: int(*fd.FeatureAddress.Feature), Type: string(*fd.FeatureType), Role: string(*fd.Role), Fns: []TFn{}}
		if fd.FeatureAddress.Device == nil || string(*fd.FeatureAddress.Device) != localDev {
			f.E += "@baddev"
		}
		for _, sf := range fd.SupportedFunction {
			if sf.Function == nil || sf.PossibleOperations == nil {
				f.Fns = append(f.Fns, TFn{Fn: "?"})
				continue
			}
			f.Fns = append(f.Fns, TFn{Fn: treeFnAbs(*sf.Function), R: sf.PossibleOperations.Read != nil, W: sf.PossibleOperations.Write != nil})
		}
		if dynamicEnt(e) {
			f.Desc = descVersion(fd.Description, f.Type, f.Role)
			if f.Desc == 0 {
				f.Type += "!description"
			}
			t.Feats = append(t.Feats, f)
		} else {
			b, _ := json.Marshal(f)
			st = append(st, string(b))
		}
	}
	sort.Strings(t.Ents)
	sortFeats(t.Feats)
	sort.Strings(st)
	return t, strings.Join(st, ";")
}

func treeReplay(args []string) {
	fs := flag.NewFlagSet("tree-replay", flag.ExitOnError)
	topoF := fs.String("topo", "", "")
	inF := fs.String("in", "", "")
	outF := fs.String("out", "", "")
	must(fs.Parse(args))
	tb, err := os.ReadFile(*topoF)
	must(err)
	topo, err := parseTopo(tb)
	must(err)
	in, err := os.Open(*inF)
	must(err)
	defer in.Close()
	out, err := os.Create(*outF)
	must(err)
	defer out.Close()
	w := bufio.NewWriterSize(out, 1<<20)
	defer w.Flush()
	enc := json.NewEncoder(w)
	sc := bufio.NewScanner(in)
	sc.Buffer(make([]byte, 1<<20), 1<<26)
	nb, ns := 0, 0
	for sc.Scan() {
		var beh []Action
		must(json.Unmarshal(sc.Bytes(), &beh))
		must(enc.Encode(map[string]any{"a": map[string]string{"a": "reset"}}))
		// besides the two peers of the specification there is a mute one (its connection cannot be written to) that
		// subscribed to node management first: what the others are sent must not depend on it
		t2 := *topo
		// and two peers (q1, q2) that subscribed right after their connection was set up and never sent a discovery reply
		// (their device address is not known to the stack): they are subscribers like p1
		t2.Peers = append(append([]string{"m0"}, topo.Peers...), "q1", "q2")
		s := NewSystem(&t2)
		for _, pn := range []string{"m0", "p1", "p2"} {
			s.step(Action{"a": "connect", "p": pn})
			s.step(Action{"a": "discover", "p": pn, "ents": []any{"1", "2"}, "ack": false})
		}
		s.step(Action{"a": "sub", "p": "m0", "c": "nm", "s": "NM", "ft": "NodeManagement", "ack": false})
		s.step(Action{"a": "sub", "p": "p1", "c": "nm", "s": "NM", "ft": "NodeManagement", "ack": false})
		for _, pn := range []string{"q1", "q2"} {
			s.step(Action{"a": "connect", "p": pn})
			s.step(Action{"a": "sub", "p": pn, "c": "nm", "s": "NM", "ft": "NodeManagement", "dev": "own", "sdev": "own", "ack": false})
			s.peers[pn].w.drain()
		}
		if len(s.dev.SubscriptionManager().SubscriptionsOnFeature(*s.dev.NodeManagement().Address())) != 4 {
			must(fmt.Errorf("tree-replay setup: the four node management subscriptions were not granted"))
		}
		ents := map[string]*spine.EntityLocal{}
		static0 := ""
		for _, a := range beh {
			line := TreeLine{A: a, Ret: "ok", Reply: TTree{Ents: []string{}, Feats: []TFeat{}, None: true}, Notes: map[string][]TNote{"p1": {}, "p2": {}, "q1": {}, "q2": {}},
				StaticOk: true, Resolves: true}
			var injected uint64
			func() {
				defer func() {
					if r := recover(); r != nil {
						line.Panic = fmt.Sprint(r)
					}
				}()
				e := a.str("e")
				switch a.str("a") {
				case "newent":
					if _, ok := ents[e]; !ok {
						ents[e] = spine.NewEntityLocal(s.dev, model.EntityTypeTypeCEM, entAddr(e), 0)
					}
				case "addfeat":
					ent, ok := ents[e]
					if !ok {
						line.Ret = "noentity"
						break
					}
					f := ent.GetOrAddFeature(model.FeatureTypeType(a.str("t")), model.RoleType(a.str("r")))
					line.Ret = fmt.Sprint(uint(*f.Address().Feature))
				case "addfn":
					if ent, ok := ents[e]; ok {
						if f := ent.FeatureOfAddress(ptr(model.AddressFeatureType(a.num("no")))); f != nil && !isNilIface(f) {
							f.AddFunctionType(treeFn[a.str("fn")], a.boolean("r"), a.boolean("w"))
						}
					}
				case "setdesc":
					if ent, ok := ents[e]; ok {
						if f := ent.FeatureOfAddress(ptr(model.AddressFeatureType(a.num("no")))); f != nil && !isNilIface(f) {
							f.SetDescriptionString(expectedDesc(string(f.Type()), string(f.Role())) + " v2")
						}
					}
				case "addent":
					if ent, ok := ents[e]; ok && s.dev.Entity(entAddr(e)) == nil {
						s.dev.AddEntity(ent)
					} else {
						line.Ret = "skip"
					}
				case "rement":
					if ent, ok := ents[e]; ok && s.dev.Entity(entAddr(e)) != nil {
						s.dev.RemoveEntity(ent)
					} else {
						line.Ret = "skip"
					}
				case "read":
					p := s.peers[a.str("p")]
					injected = s.inject(p, model.CmdClassifierTypeRead, s.remoteAddr(p, "nm"), s.nmLocal(), false, nil,
						model.CmdType{NodeManagementDetailedDiscoveryData: &model.NodeManagementDetailedDiscoveryDataType{}})
				}
			}()
			// what was written to the peers
			for _, pn := range []string{"p1", "p2", "q1", "q2"} {
				p := s.peers[pn]
				for _, raw := range p.w.drain() {
					var dg model.Datagram
					if json.Unmarshal(raw, &dg) != nil || len(dg.Datagram.Payload.Cmd) != 1 {
						continue
					}
					h := dg.Datagram.Header
					cmd := dg.Datagram.Payload.Cmd[0]
					dd := cmd.NodeManagementDetailedDiscoveryData
					if dd == nil || h.CmdClassifier == nil {
						line.Notes[pn] = append(line.Notes[pn], TNote{Chg: "other:" + fmt.Sprint(cmd.DataName()), Feats: []TFeat{}})
						continue
					}
					t, static := absDiscovery(dd, localDevAddr)
					switch *h.CmdClassifier {
					case model.CmdClassifierTypeReply:
						if a.str("p") == pn && h.MsgCounterReference != nil && uint64(*h.MsgCounterReference) == injected {
							line.Reply = TTree{Ents: t.Ents, Feats: t.Feats, None: false}
							if static0 == "" {
								static0 = static
							}
							if static != static0 {
								line.StaticOk = false
							}
						} else {
							line.Notes[pn] = append(line.Notes[pn], TNote{Chg: "stray reply", Feats: []TFeat{}})
						}
					case model.CmdClassifierTypeNotify:
						n := TNote{Chg: "?", E: "?", Feats: t.Feats}
						if len(dd.EntityInformation) == 1 && dd.EntityInformation[0].Description != nil && dd.EntityInformation[0].Description.EntityAddress != nil {
							n.E = entStr(dd.EntityInformation[0].Description.EntityAddress.Entity)
							if lsc := dd.EntityInformation[0].Description.LastStateChange; lsc != nil {
								n.Chg = string(*lsc)
							}
						}
						if len(cmd.Filter) != 1 || cmd.Filter[0].CmdControl == nil || cmd.Filter[0].CmdControl.Partial == nil {
							n.Chg += "!notpartial"
						}
						if s.localName(h.AddressSource) != "NM" || s.remoteName(p, h.AddressDestination) != "nm" {
							n.Chg += "!address"
						}
						line.Notes[pn] = append(line.Notes[pn], n)
					}
				}
			}
			// the tree through the API
			line.Tree = TTree{Ents: []string{}, Feats: []TFeat{}}
			for _, ent := range s.dev.Entities() {
				e := entStr(ent.Address().Entity)
				if !dynamicEnt(e) {
					continue
				}
				line.Tree.Ents = append(line.Tree.Ents, e)
				for _, f := range ent.Features() {
					tf := TFeat{E: e, No: int(*f.Address().Feature), Type: string(f.Type()), Role: string(f.Role()), Fns: []TFn{}}
					tf.Desc = descVersion(f.Description(), tf.Type, tf.Role)
					for fn, op := range f.Operations() {
						tf.Fns = append(tf.Fns, TFn{Fn: treeFnAbs(fn), R: op.Read(), W: op.Write()})
					}
					line.Tree.Feats = append(line.Tree.Feats, tf)
					var back api.FeatureLocalInterface = s.dev.FeatureByAddress(f.Address())
					if back != f {
						line.Resolves = false
					}
				}
			}
			sort.Strings(line.Tree.Ents)
			sortFeats(line.Tree.Feats)
			must(enc.Encode(line))
			ns++
		}
		s.Close()
		nb++
	}
	fmt.Printf("{\"behaviours\": %d, \"steps\": %d}\n", nb, ns)
}
