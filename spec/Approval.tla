------------------------------ MODULE Approval ------------------------------
(***************************************************************************)
(* Write approval (C12): N callbacks, concurrently pending writes of one   *)
(* peer on one server feature, verdicts approve / deny / silent, the       *)
(* approval timeout.  Code-shaped: a verdict is two steps,                 *)
(*    V1  the lookup of the pending entry (under muxResponseCB), then the  *)
(*        hook point ApproveOrDenyWrite.afterLookup                        *)
(*    V2  tally, timer stop, removal of the entry, apply or error result   *)
(*        (one critical section under muxWriteReceived)                    *)
(* and the timer callback T (hook point WriteApproval.timerFired at its    *)
(* first statement) removes the entry and sends the error result.          *)
(* expires[w] says whether the timeout of w elapses before the write is    *)
(* decided (then T runs at some point; timer.Stop() has no effect any      *)
(* more); a write with a silent callback always expires.                   *)
(* Atomic = TRUE fuses V1;V2 and lets T decide only if the entry is still  *)
(* pending - the contract.  Atomic = FALSE is the code.                    *)
(***************************************************************************)
EXTENDS Naturals, Sequences, FiniteSets, TLC, Json

CONSTANTS Writes,          \* e.g. {"w1", "w2"}
          NCb,             \* number of callbacks
          Atomic,
          TallyReset,      \* TRUE: a write whose counter is not in the tally map re-creates the map (the code before the fix)
          Epochs,          \* 1, or 2: the connection is removed at some point and the peer connects, binds and writes again;
                           \* its message counters start again, so the writes of the second epoch carry the identities
                           \* (peer, counter) of the first
          StaleTally       \* FALSE: the teardown forgets the approvals counted so far (contract, CleanWriteApprovalCaches);
                           \* TRUE: they survive (shows that Safe is sensitive to it)

Cbs == 1..NCb
VerdictVals == {"approve", "deny", "silent"}

VARIABLES verdict,   \* [Writes -> [Cbs -> VerdictVals]]
          expires,   \* [Writes -> BOOLEAN]
          pend,      \* set of writes with a pending entry
          tally,     \* function from a subset of Writes to the number of approvals counted (the per-peer map)
          vpc,       \* [Writes -> [Cbs -> "idle" | "looked" | "late" | "done"]]
          tdone,     \* writes whose timer callback has run
          stopped,   \* writes whose timer was stopped in time
          outcome,   \* [Writes -> sequence of "ok" | "err"]
          sched,     \* the steps taken in this epoch, in order
          epoch,     \* 1..Epochs
          past       \* the finished epochs: sequence of [verdict, expires, sched]
vars == <<verdict, expires, pend, tally, vpc, tdone, stopped, outcome, sched, epoch, past>>

Silent(w) == \E c \in Cbs : verdict[w][c] = "silent"
Init == /\ verdict \in [Writes -> [Cbs -> VerdictVals]]
        /\ expires \in {e \in [Writes -> BOOLEAN] : \A w \in Writes : Silent(w) => e[w]}
        /\ pend = Writes /\ tally = << >> /\ vpc = [w \in Writes |-> [c \in Cbs |-> "idle"]]
        /\ tdone = {} /\ stopped = {} /\ outcome = [w \in Writes |-> << >>] /\ sched = << >>
        /\ epoch = 1 /\ past = << >>

VName(w, c) == "v:" \o w \o ":" \o ToString(c)
TName(w) == "t:" \o w

\* the critical section of a verdict whose lookup found the entry
Decide(w, c) ==
    LET v == verdict[w][c]
        counted == IF NCb > 1 /\ v = "approve"
                   THEN (IF w \in DOMAIN tally THEN [tally EXCEPT ![w] = @ + 1]
                         ELSE IF TallyReset THEN (w :> 1) ELSE (w :> 1) @@ tally)
                   ELSE tally
        enough == ~(NCb > 1 /\ v = "approve") \/ counted[w] >= NCb
    IN IF ~enough THEN /\ tally' = counted /\ UNCHANGED <<pend, stopped, outcome>>
       ELSE /\ tally' = [x \in DOMAIN counted \ {w} |-> counted[x]]
            /\ stopped' = IF expires[w] THEN stopped ELSE stopped \cup {w}
            /\ pend' = pend \ {w}
            /\ outcome' = [outcome EXCEPT ![w] = Append(@, IF v = "approve" THEN "ok" ELSE "err")]

V1(w, c) == /\ vpc[w][c] = "idle" /\ verdict[w][c] # "silent"
            /\ sched' = Append(sched, VName(w, c))
            /\ IF w \notin pend
               THEN vpc' = [vpc EXCEPT ![w][c] = "done"] /\ UNCHANGED <<pend, tally, stopped, outcome>>     \* too late
               ELSE IF Atomic THEN vpc' = [vpc EXCEPT ![w][c] = "done"] /\ Decide(w, c)
               ELSE vpc' = [vpc EXCEPT ![w][c] = "looked"] /\ UNCHANGED <<pend, tally, stopped, outcome>>
            /\ UNCHANGED <<verdict, expires, tdone, epoch, past>>
V2(w, c) == /\ vpc[w][c] = "looked"
            /\ sched' = Append(sched, VName(w, c))
            /\ vpc' = [vpc EXCEPT ![w][c] = "done"]
            /\ Decide(w, c)
            /\ UNCHANGED <<verdict, expires, tdone, epoch, past>>
\* the timer callback: the code sends the error result unconditionally, the contract only if still pending
T(w) == /\ expires[w] /\ w \notin tdone
        /\ sched' = Append(sched, TName(w))
        /\ tdone' = tdone \cup {w}
        /\ pend' = pend \ {w}
        /\ outcome' = [outcome EXCEPT ![w] = IF Atomic /\ w \notin pend THEN @ ELSE Append(@, "err")]
        /\ UNCHANGED <<verdict, expires, tally, vpc, stopped, epoch, past>>
\* Teardown and return of the peer: enabled at any point where no verdict call is in flight and every timeout that
\* elapses has run (the timers of the other writes never fire).  Writes that were still waiting for verdicts are
\* dropped without outcome (their connection is gone); the writes of the new epoch start from nothing.
Reconnect == /\ epoch < Epochs
             /\ \A w \in Writes : \A c \in Cbs : vpc[w][c] # "looked"
             /\ \A w \in Writes : expires[w] => w \in tdone
             /\ epoch' = epoch + 1
             /\ past' = Append(past, [verdict |-> verdict, expires |-> expires, sched |-> sched])
             /\ verdict' \in [Writes -> [Cbs -> VerdictVals]]
             /\ expires' \in {e \in [Writes -> BOOLEAN] : \A w \in Writes : (\E c \in Cbs : verdict'[w][c] = "silent") => e[w]}
             /\ pend' = Writes
             /\ tally' = IF StaleTally THEN tally ELSE << >>
             /\ vpc' = [w \in Writes |-> [c \in Cbs |-> "idle"]]
             /\ tdone' = {} /\ stopped' = {} /\ outcome' = [w \in Writes |-> << >>] /\ sched' = << >>
Next == Reconnect \/ \E w \in Writes : T(w) \/ \E c \in Cbs : V1(w, c) \/ V2(w, c)
Spec == Init /\ [][Next]_vars

\* Liveness (checked by TLC on the atomic and on the split model, one epoch): under weak fairness of every verdict step
\* and of every timer callback whose timeout elapses, every write is eventually decided - and stays decided with one outcome
Fair == \A w \in Writes : WF_vars(T(w)) /\ \A c \in Cbs : WF_vars(V1(w, c)) /\ WF_vars(V2(w, c))
LiveSpec == Init /\ [][Next]_vars /\ Fair
EveryWriteDecided == \A w \in Writes : <>[](Len(outcome[w]) >= 1)

Quiescent == /\ \A w \in Writes : \A c \in Cbs : verdict[w][c] = "silent" \/ vpc[w][c] = "done"
             /\ \A w \in Writes : expires[w] => w \in tdone
AllApprove(w) == \A c \in Cbs : verdict[w][c] = "approve"
\* C12: every write gets exactly one outcome; applied only if unanimously approved; without timeout the outcome
\* is determined by the verdicts alone, independently of the other write
ExactlyOneOutcome == Quiescent => \A w \in Writes : Len(outcome[w]) = 1
OutcomeSound == Quiescent => \A w \in Writes : \A i \in DOMAIN outcome[w] :
                    /\ (outcome[w][i] = "ok" => AllApprove(w))
                    /\ (~expires[w] /\ AllApprove(w) => outcome[w][i] = "ok")
                    /\ (~expires[w] /\ ~AllApprove(w) => outcome[w][i] = "err")
Safe == ExactlyOneOutcome /\ OutcomeSound
Unsafe == ~((\A w \in Writes : Len(outcome[w]) = 1) /\
            (\A w \in Writes : \A i \in DOMAIN outcome[w] : (outcome[w][i] = "ok" => AllApprove(w))
                                /\ (~expires[w] /\ AllApprove(w) => outcome[w][i] = "ok") /\ (~expires[w] /\ ~AllApprove(w) => outcome[w][i] = "err")))
\* generator: every complete interleaving of every configuration, with the model's verdict about it
EmitInv == (Quiescent /\ epoch = Epochs) => PrintT(<<"S", ToJson([verdict |-> verdict, expires |-> expires, sched |-> sched, unsafe |-> Unsafe, past |-> past])>>)
=============================================================================
