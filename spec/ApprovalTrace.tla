---------------------------- MODULE ApprovalTrace ----------------------------
(* Validation of forced write-approval schedules executed on the real FeatureLocal against the CONTRACT (atomic    *)
(* verdicts): the observed outcome of every write must be the outcome of some linearization in which every verdict *)
(* call takes effect at one point between its start (lookup) and its end, and the timeout at the point where its    *)
(* callback ran.  A line: cfg (verdict, expires), sched (process names in execution order), outcomes per write      *)
(* (result datagrams referencing it, in order), presented (callback invocations per write and callback), data.     *)
EXTENDS Naturals, Sequences, FiniteSets, TLC, Json, IOUtils, SequencesExt

TraceFile == IF "VERIF_TRACE" \in DOMAIN IOEnv THEN IOEnv.VERIF_TRACE ELSE "trace.ndjson"
Trace == ndJsonDeserialize(TraceFile)
SetOfSeq(s) == {s[i] : i \in DOMAIN s}

\* atomic steps: [k |-> "v", w, c] or [k |-> "t", w]
RECURSIVE Walk(_, _, _, _, _, _)
Walk(steps, i, pend, tally, out, e) ==
    IF i > Len(steps) THEN out
    ELSE LET s == steps[i]  w == s.w IN
         IF w \notin pend THEN Walk(steps, i + 1, pend, tally, out, e)
         ELSE IF s.k = "t" THEN Walk(steps, i + 1, pend \ {w}, tally, [out EXCEPT ![w] = Append(@, "err")], e)
         ELSE LET v == e.verdict[w][s.c]
                  n == Len(e.verdict[w])
                  cnt == IF v = "approve" THEN tally[w] + 1 ELSE tally[w]
              IN IF v = "deny" THEN Walk(steps, i + 1, pend \ {w}, tally, [out EXCEPT ![w] = Append(@, "err")], e)
                 ELSE IF cnt >= n THEN Walk(steps, i + 1, pend \ {w}, tally, [out EXCEPT ![w] = Append(@, "ok")], e)
                 ELSE Walk(steps, i + 1, pend, [tally EXCEPT ![w] = cnt], out, e)

\* linearizations: every verdict process at its first or at its last occurrence in the schedule
Occ(sched, name) == {i \in DOMAIN sched : sched[i] = name}
Names(sched) == SetOfSeq(sched)
Linearizations(sched) ==
    LET names == Names(sched)
        choices == [names -> {"first", "last"}]
    IN {LET pos == [n \in names |-> IF ch[n] = "first" THEN Min(Occ(sched, n)) ELSE Max(Occ(sched, n))]
            order == SortSeq(SetToSeq(names), LAMBDA a, b : pos[a] < pos[b])
        IN order : ch \in choices}

Writes(e) == DOMAIN e.verdict
\* psched: the schedule as records [k, w, c] (k = "v" verdict process of callback c, k = "t" timer callback; c = 0 for timers)
Allowed(e) == {Walk(lin, 1, Writes(e), [w \in Writes(e) |-> 0], [w \in Writes(e) |-> << >>], e) : lin \in Linearizations(e.psched)}

\* C10: the connection was removed while the writes were pending: nothing is written to it any more (and nothing hangs)
DisconnectDefects(e) ==
    (IF e.panic = "" THEN {} ELSE {"panic or hang"})
    \cup (IF e.afterdisc = 0 THEN {} ELSE {"datagram written to the removed connection"})

Defects0(e) ==
    (IF e.panic = "" THEN {} ELSE {"panic or hang"})
    \cup (IF \A w \in Writes(e) : Len(e.outcomes[w]) = 1 THEN {} ELSE {"a write does not have exactly one outcome"})
    \* (a schedule that could not be realised as given - a step blocked on a lock held by a parked process and completed
    \* later - is judged by the order-independent part of the contract only)
    \cup (IF e.realised
          THEN (IF [w \in Writes(e) |-> e.outcomes[w]] \in Allowed(e) THEN {} ELSE {"outcome is not that of any linearization of the verdicts and the timeout"})
          ELSE (IF \A w \in Writes(e) : \A i \in DOMAIN e.outcomes[w] :
                       /\ (e.outcomes[w][i] = "ok" => \A c \in DOMAIN e.verdict[w] : e.verdict[w][c] = "approve")
                       /\ (~e.expires[w] /\ (\A c \in DOMAIN e.verdict[w] : e.verdict[w][c] = "approve") => e.outcomes[w][i] = "ok")
                       /\ (~e.expires[w] /\ (\E c \in DOMAIN e.verdict[w] : e.verdict[w][c] = "deny") => e.outcomes[w][i] = "err")
                THEN {} ELSE {"outcome contradicts the verdicts"}))
    \cup (IF \A w \in Writes(e) : \A c \in DOMAIN e.presented[w] : e.presented[w][c] = 1 THEN {} ELSE {"write not presented exactly once to every callback"})
    \* the data is that of the last applied write, or unchanged (data0: the data before the writes of this epoch arrived)
    \cup (IF e.data \in {e.data0} \cup {e.values[w] : w \in {x \in Writes(e) : "ok" \in SetOfSeq(e.outcomes[x])}}
             /\ ((\E w \in Writes(e) : "ok" \in SetOfSeq(e.outcomes[w])) => e.data # e.data0)
          THEN {} ELSE {"data does not match the applied writes"})

Defects(e) == IF e.disconnect >= 0 THEN DisconnectDefects(e) ELSE Defects0(e)

VARIABLE l
Init == l = 1
Next == l <= Len(Trace) /\ l' = l + 1
Spec == Init /\ [][Next]_l
Bad == {i \in 1..Len(Trace) : Defects(Trace[i]) # {}}
Final == l > Len(Trace) =>
           /\ PrintT(<<"RACEBAD", ToJson([i \in Bad |-> [line |-> i, defects |-> Defects(Trace[i])]])>>)
           /\ PrintT(<<"RACESTAT", ToJson([lines |-> Len(Trace),
                                           realised |-> Cardinality({i \in 1..Len(Trace) : Trace[i].realised}),
                                           unsaferealised |-> Cardinality({i \in 1..Len(Trace) : Trace[i].realised /\ Trace[i].unsafe})])>>)
=============================================================================
