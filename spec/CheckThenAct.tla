---------------------------- MODULE CheckThenAct ----------------------------
(***************************************************************************)
(* The check-then-act windows of the stack (C09 AddBinding, C07            *)
(* GetOrAddFeature, C20 use-case read-modify-write), at the granularity of *)
(* the code's critical sections:                                           *)
(*    Read(p)  - the lookup / check / copy   (up to the hook point)        *)
(*    Act(p)   - the insertion / store       (after the hook point)        *)
(* Kind "guard":     Act only if Read saw nothing (bind, feature).         *)
(* Kind "overwrite": Act stores what Read saw plus the own change.         *)
(* With Atomic = TRUE Read and Act are one step (what a lock around both   *)
(* gives) and TLC proves the invariant for every interleaving; with        *)
(* Atomic = FALSE TLC enumerates every interleaving of the split steps:    *)
(* the schedules are replayed on the real goroutines through gates.        *)
(***************************************************************************)
EXTENDS Naturals, Sequences, FiniteSets, TLC, Json

CONSTANTS Procs, Kind, Atomic

VARIABLES pc, seen, shared, sched
vars == <<pc, seen, shared, sched>>

Init == /\ pc = [p \in Procs |-> "start"]
        /\ seen = [p \in Procs |-> {}]
        /\ shared = {}
        /\ sched = << >>

ActEffect(p, sn, sh) == IF Kind = "guard" THEN (IF sn = {} THEN sh \cup {p} ELSE sh) ELSE sn \cup {p}

Read(p) == /\ pc[p] = "start"
           /\ seen' = [seen EXCEPT ![p] = shared]
           /\ sched' = Append(sched, p)
           /\ IF Atomic \/ (Kind = "guard" /\ shared # {})
              THEN /\ shared' = ActEffect(p, shared, shared)
                   /\ pc' = [pc EXCEPT ![p] = "done"]
              ELSE /\ pc' = [pc EXCEPT ![p] = "act"] /\ UNCHANGED shared
Act(p) == /\ pc[p] = "act"
          /\ shared' = ActEffect(p, seen[p], shared)
          /\ pc' = [pc EXCEPT ![p] = "done"]
          /\ sched' = Append(sched, p)
          /\ UNCHANGED seen
Next == \E p \in Procs : Read(p) \/ Act(p)
Spec == Init /\ [][Next]_vars

Quiescent == \A p \in Procs : pc[p] = "done"
\* guard: at most one of the concurrent requests takes effect; overwrite: no update is lost
Safe == Quiescent => IF Kind = "guard" THEN Cardinality(shared) = 1 ELSE shared = Procs
\* generator: every complete interleaving once
EmitInv == Quiescent => PrintT(<<"S", ToJson([sched |-> sched, unsafe |-> ~(IF Kind = "guard" THEN Cardinality(shared) = 1 ELSE shared = Procs)])>>)
=============================================================================
