------------------------------ MODULE CmdAlgebra ------------------------------
(***************************************************************************)
(* Wire format and function tables (C18).  For every function f registered *)
(* for any feature type and every command shape s the real chain           *)
(*   Read/Reply/NotifyOrWriteCmdType -> json.Marshal -> json.Unmarshal ->  *)
(*   CmdType.Data / ExtractFilter / FilterType.Data                        *)
(* must recognise the command as f again, with f's payload type and the    *)
(* same partial / delete filters, selectors and elements:                  *)
(*   Recognise(Decode(Encode(Build(f, s)))) = Expected(f, s).              *)
(* A trace line is what the chain recognised for one (f, s); lines of type *)
(* "value" carry the verdict of the value-level round trip of a            *)
(* reflectively generated value (oracle: driver).                          *)
(***************************************************************************)
EXTENDS Naturals, Sequences, FiniteSets, TLC, Json, IOUtils

CONSTANTS KnownDeviations

Shapes == {"read", "read+sel", "read+elem", "reply", "full", "partial", "partial+sel", "delete+sel", "delete+elem"}
HasPartial(s) == s \in {"read+sel", "read+elem", "partial", "partial+sel"}
HasDelete(s)  == s \in {"delete+sel", "delete+elem"}
HasSel(s)     == s \in {"read+sel", "partial+sel", "delete+sel"}
HasElem(s)    == s \in {"read+elem", "delete+elem"}

\* what must be recognised for function f built in shape s
Expected(f, s) == [fn |-> f, payload |-> TRUE, partial |-> HasPartial(s), delete |-> HasDelete(s),
                   sel |-> HasSel(s), elem |-> HasElem(s), filterfn |-> HasSel(s) \/ HasElem(s)]
Recognised(e) == [fn |-> e.rfn, payload |-> e.payload, partial |-> e.partial, delete |-> e.delete,
                  sel |-> e.sel, elem |-> e.elem, filterfn |-> e.filterfn]

TraceFile == IF "VERIF_TRACE" \in DOMAIN IOEnv THEN IOEnv.VERIF_TRACE ELSE "trace.ndjson"
Trace == ndJsonDeserialize(TraceFile)

Verdict(e) ==
    IF e.t = "value" THEN (IF e.ok THEN "ok" ELSE "bad:value does not survive encode / decode")
    ELSE IF e.t = "table" THEN (IF e.ok THEN "ok" ELSE "bad:function table is not a function")
    ELSE IF e.panic # "" THEN "bad:panic"
    ELSE IF e.shape \notin Shapes THEN "bad:unknown shape"
    ELSE IF Recognised(e) = Expected(e.fn, e.shape) THEN "ok"
    ELSE "bad:not recognised as itself"

VARIABLES l, bad
tvars == <<l, bad>>
Init == l = 1 /\ bad = << >>
Step == /\ l <= Len(Trace) /\ l' = l + 1
        /\ LET v == Verdict(Trace[l]) IN bad' = IF v # "ok" /\ Len(bad) < 400 THEN Append(bad, [line |-> l, why |-> v]) ELSE bad
TraceSpec == Init /\ [][Step]_tvars
Final == l > Len(Trace) => PrintT(<<"BAD", ToJson(bad)>>) /\ PrintT(<<"LINES", Len(Trace)>>)
Done == TLCGet("stats").diameter - 1 = Len(Trace)
=============================================================================
