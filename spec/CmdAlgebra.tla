------------------------------ MODULE CmdAlgebra ------------------------------
(***************************************************************************)
(* Wire format and function tables (C18).  For every function f registered *)
(* for any feature type and every command shape s the real chain           *)
(*   Read/Reply/NotifyOrWriteCmdType -> json.Marshal -> json.Unmarshal ->  *)
(*   CmdType.Data / ExtractFilter / FilterType.Data                        *)
(* must recognise the command as f again, with f's payload type and the    *)
(* same partial / delete filters, selectors and elements:                  *)
(*   Recognise(Decode(Encode(Build(f, s)))) = Expected(f, s).              *)
(* A trace line is what the chain recognised for one (f, s); lines of type *)
(* "value" carry the verdict of the value-level round trip of a            *)
(* reflectively generated value (oracle: driver).                          *)
(***************************************************************************)
EXTENDS Naturals, Sequences, FiniteSets, TLC, Json, IOUtils

CONSTANTS KnownDeviations

Shapes == {"read", "read+sel", "read+elem", "reply", "full", "partial", "partial+sel", "delete+sel", "delete+elem",
           \* combinations of a delete filter with a partial selector (what FeatureLocal.UpdateData passes on)
           "delete+selelem", "delete+sel&partial+sel", "delete+elem&partial+sel", "delete+selelem&partial+sel",
           \* a selector / elements object without any field set ("all") is a value like any other
           "read+sel0", "partial+sel0", "delete+sel0", "read+elem0", "delete+elem0"}
HasPartial(s) == s \in {"read+sel", "read+elem", "partial", "partial+sel", "read+sel0", "partial+sel0", "read+elem0", "delete+sel&partial+sel", "delete+elem&partial+sel", "delete+selelem&partial+sel"}
HasDelete(s)  == s \in {"delete+sel", "delete+elem", "delete+selelem", "delete+sel0", "delete+elem0", "delete+sel&partial+sel", "delete+elem&partial+sel", "delete+selelem&partial+sel"}
\* per filter: 1 = carries exactly the given selector / elements, 0 = carries none
PSel(s)  == IF s \in {"read+sel", "partial+sel", "read+sel0", "partial+sel0", "delete+sel&partial+sel", "delete+elem&partial+sel", "delete+selelem&partial+sel"} THEN 1 ELSE 0
PElem(s) == IF s \in {"read+elem", "read+elem0"} THEN 1 ELSE 0
DSel(s)  == IF s \in {"delete+sel", "delete+sel0", "delete+selelem", "delete+sel&partial+sel", "delete+selelem&partial+sel"} THEN 1 ELSE 0
DElem(s) == IF s \in {"delete+elem", "delete+elem0", "delete+selelem", "delete+elem&partial+sel", "delete+selelem&partial+sel"} THEN 1 ELSE 0

\* what must be recognised for function f built in shape s
Expected(f, s) == [fn |-> f, payload |-> TRUE, partial |-> HasPartial(s), delete |-> HasDelete(s),
                   psel |-> PSel(s), pelem |-> PElem(s), dsel |-> DSel(s), delem |-> DElem(s),
                   filterfn |-> PSel(s) + PElem(s) + DSel(s) + DElem(s) > 0]
Recognised(e) == [fn |-> e.rfn, payload |-> e.payload, partial |-> e.partial, delete |-> e.delete,
                  psel |-> e.psel, pelem |-> e.pelem, dsel |-> e.dsel, delem |-> e.delem, filterfn |-> e.filterfn]

TraceFile == IF "VERIF_TRACE" \in DOMAIN IOEnv THEN IOEnv.VERIF_TRACE ELSE "trace.ndjson"
Trace == ndJsonDeserialize(TraceFile)

Verdict(e) ==
    IF e.t = "value" THEN (IF e.ok THEN "ok" ELSE "bad:value does not survive encode / decode")
    ELSE IF e.t = "table" THEN (IF e.ok THEN "ok" ELSE "bad:function table is not a function")
    ELSE IF e.panic # "" THEN "bad:panic"
    ELSE IF e.shape \notin Shapes THEN "bad:unknown shape"
    ELSE IF Recognised(e) = Expected(e.fn, e.shape) THEN "ok"
    ELSE "bad:not recognised as itself"

VARIABLES l, bad
tvars == <<l, bad>>
Init == l = 1 /\ bad = << >>
Step == /\ l <= Len(Trace) /\ l' = l + 1
        /\ LET v == Verdict(Trace[l]) IN bad' = IF v # "ok" /\ Len(bad) < 400 THEN Append(bad, [line |-> l, why |-> v]) ELSE bad
TraceSpec == Init /\ [][Step]_tvars
Final == l > Len(Trace) => PrintT(<<"BAD", ToJson(bad)>>) /\ PrintT(<<"LINES", Len(Trace)>>)
Done == TLCGet("stats").diameter - 1 = Len(Trace)
=============================================================================
