----------------------------- MODULE Conversions -----------------------------
(***************************************************************************)
(* Numeric and temporal conversions (C19) in exact integer arithmetic.     *)
(* A decimal is (k, d) = k * 10^-d with 0 <= d <= 4.  A scaled number is   *)
(* (number, scale) = number * 10^scale.  They are equal iff                *)
(*      number * 10^(scale + S) = k * 10^(S - d)     for S = 4 + |scale|   *)
(* (any representation with the right value is accepted).  Durations are   *)
(* counted in units of 100 ms, instants in seconds.                        *)
(* Trace lines (from the Go driver, which forms the float64 / time values  *)
(* and calls the real conversion functions):                               *)
(*   [t |-> "dec", k, d, number, scale, getvalue]   dense decimals          *)
(*   [t |-> "big", within]      magnitudes up to 10^14 (128-bit arithmetic  *)
(*                              in the driver; TLC integers are 32 bit)     *)
(*   [t |-> "dur", units, back, fits]  duration round trip (units of 100ms) *)
(*   [t |-> "inst", eq]         instant round trip (whole seconds)          *)
(*   [t |-> "period", diff]     relative end time read back, difference in  *)
(*                              seconds to the remaining duration           *)
(***************************************************************************)
EXTENDS Integers, Sequences, FiniteSets, TLC, Json, IOUtils

CONSTANTS KnownDeviations

RECURSIVE Pow10(_)
Pow10(n) == IF n = 0 THEN 1 ELSE 10 * Pow10(n - 1)

\* exact equality of k * 10^-d and number * 10^scale, for -4 <= scale <= 4 and small magnitudes
ScaledEq(k, d, number, scale) ==
    IF scale >= 0 THEN number * Pow10(scale) * Pow10(d) = k
    ELSE number * Pow10(d) = k * Pow10(-scale)

TraceFile == IF "VERIF_TRACE" \in DOMAIN IOEnv THEN IOEnv.VERIF_TRACE ELSE "trace.ndjson"
Trace == ndJsonDeserialize(TraceFile)

\* a duration that the period formatter normalises to years / months loses precision: the named finding
Verdict(e) ==
    CASE e.t = "dec" ->
            IF e.scale < -4 \/ e.scale > 4 THEN "bad:scale out of range"
            ELSE IF ~ScaledEq(e.k, e.d, e.number, e.scale) THEN "bad:decimal does not convert to itself"
            ELSE IF ~e.getvalue THEN "bad:GetValue differs from the decimal"
            ELSE "ok"
      [] e.t = "big" -> IF e.within THEN "ok"
                        \* value * 10^4 is beyond 2^53: the float64 product is no longer exact (named finding, bounded error)
                        ELSE IF e.large /\ e.near /\ "LargeMagnitudeProductInexact" \in KnownDeviations THEN "dev:LargeMagnitudeProductInexact"
                        ELSE "bad:more than 0.0001 away"
      [] e.t = "dur" ->
            IF e.fits /\ e.back = e.units THEN "ok"
            ELSE IF ~e.fits /\ e.eq THEN "ok"
            \* (only from 3276 days on, where the formatter has to switch to years and months: a calendar text for a
            \* shorter duration is a different violation)
            ELSE IF e.calendar /\ e.long /\ "LongDurationsCalendarApproximated" \in KnownDeviations THEN "dev:LongDurationsCalendarApproximated"
            ELSE "bad:duration does not survive the round trip"
      [] e.t = "inst" -> IF e.eq THEN "ok" ELSE "bad:instant does not survive the round trip"
      [] e.t = "period" -> IF e.diff >= -1 /\ e.diff <= 1 THEN "ok" ELSE "bad:relative end time off by more than a second"
      [] OTHER -> "bad:unknown line"

VARIABLES l, bad, ndev, nbig
tvars == <<l, bad, ndev, nbig>>
Init == l = 1 /\ bad = << >> /\ ndev = 0 /\ nbig = 0
Step == /\ l <= Len(Trace) /\ l' = l + 1
        /\ LET v == Verdict(Trace[l]) IN
           /\ bad' = IF v \notin {"ok", "dev:LongDurationsCalendarApproximated", "dev:LargeMagnitudeProductInexact"} /\ Len(bad) < 200
                     THEN Append(bad, [line |-> l, why |-> v]) ELSE bad
           /\ nbig' = IF v = "dev:LargeMagnitudeProductInexact" THEN nbig + 1 ELSE nbig
           /\ ndev' = IF v = "dev:LongDurationsCalendarApproximated" THEN ndev + 1 ELSE ndev
TraceSpec == Init /\ [][Step]_tvars
Final == l > Len(Trace) => PrintT(<<"BAD", ToJson(bad)>>) /\ PrintT(<<"NDEV", ndev>>) /\ PrintT(<<"NBIG", nbig>>) /\ PrintT(<<"LINES", Len(Trace)>>)
Done == TLCGet("stats").diameter - 1 = Len(Trace)
=============================================================================
