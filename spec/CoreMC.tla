------------------------------- MODULE CoreMC -------------------------------
(* Exhaustive checker and input generator over SpineCore.                  *)
(*  - as checker:   INVARIANT StateInv, PROPERTY StepProperty, VIEW View   *)
(*  - as generator: VIEW View, ACTION_CONSTRAINT Emit  (prints one         *)
(*    behaviour = shortest input sequence per explored transition)         *)
EXTENDS SpineCore, Json

CONSTANTS MaxLen,        \* bound on the number of inputs in a behaviour
          Prefix         \* sequence of inputs executed before exploration starts

VARIABLES st, hist, last

vars == <<st, hist, last>>

RECURSIVE RunPrefix(_, _)
RunPrefix(s, i) == IF i > Len(Prefix) THEN s
                   ELSE RunPrefix((CHOOSE o \in Outcomes(s, Prefix[i]) : o.dev = Ideal).st, i + 1)

NoLast == [a |-> [a |-> "none"], o |-> Outcome(InitSt, NoOut, {}, "", Ideal), pre |-> InitSt]

Init == /\ st = RunPrefix(InitSt, 1)
        /\ hist = Prefix
        /\ last = NoLast

Step == /\ Len(hist) < MaxLen + Len(Prefix)
        /\ \E a \in Inputs(st) : \E o \in Outcomes(st, a) :
              /\ st' = o.st
              /\ hist' = Append(hist, a)
              /\ last' = [a |-> a, o |-> o, pre |-> st]
\* -simulate only ("flush" \in Acts): the complete random behaviour is printed once, from the
\* chosen state (invariants and constraints are evaluated on every candidate successor)
Flush == /\ "flush" \in Acts
         /\ Len(hist) = MaxLen + Len(Prefix)
         /\ PrintT(<<"B", ToJson(hist)>>)
         /\ hist' = Append(hist, [a |-> "end"])
         /\ UNCHANGED <<st, last>>
\* -simulate: one random input per step (TLC would otherwise build every successor of every state of the path)
RStep == /\ "flush" \in Acts
         /\ Len(hist) < MaxLen + Len(Prefix)
         /\ \E a \in {RandomElement(Inputs(st))} : \E o \in {RandomElement(Outcomes(st, a))} :
               /\ st' = o.st
               /\ hist' = Append(hist, a)
               /\ last' = [a |-> a, o |-> o, pre |-> st]
Next == IF "flush" \in Acts THEN RStep \/ Flush ELSE Step

Spec == Init /\ [][Next]_vars

View == st
\* history-sensitive cover: states reached by paths of different length are explored separately, so that
\* hidden history (ids, caches, slice aliasing) behind one abstract state is exercised too
ViewDepth == <<st, Len(hist)>>

StateInv == StateProps(st)
InvTypeOK == TypeOK(st)
InvOneBinding == AtMostOneBindingPerServer(st)
InvWellFormed == RegistryWellFormed(st)
InvNoDangling == NoDangling(st)
\* evaluated on every explored transition (also those leading to states already seen)
StepAction == last'.a.a # "none" => StepProps(last'.pre, last'.a, last'.o)
StepProperty == [][StepAction]_vars

\* Refinement of spec/RegistryProof.tla (whose invariant is proved by TLAPS for every number of peers, features and
\* steps): every step changes the binding registry by granting one binding to a server feature that has none, or by
\* removing entries
RegistryRefines == [][ \/ \E e \in st'.binds : st'.binds = st.binds \cup {e} /\ ~\E b \in st.binds : b.s = e.s
                       \/ st'.binds \subseteq st.binds ]_vars

\* prefixes selectable from a cfg (Prefix <- PrefixNone)
PrefixNone == << >>
Disc(p) == <<[a |-> "connect", p |-> p], [a |-> "discover", p |-> p, ents |-> {"1", "2"}, ack |-> FALSE]>>
PrefixP1 == Disc("p1")
PrefixP1P2 == Disc("p1") \o Disc("p2")
PrefixM1P2 == Disc("m1") \o Disc("p2")
PrefixP1M2 == Disc("p1") \o Disc("m2")

Emit == PrintT(<<"B", ToJson(hist')>>)
\* full history tree (no VIEW): only the leaves are printed, every shorter history is a prefix of one
EmitLeaf == Len(hist') = MaxLen + Len(Prefix) => PrintT(<<"B", ToJson(hist')>>)

ASSUME EmitTopo == PrintT(<<"T", ToJson([peers |-> Peers, lf |-> LF, lfn |-> LFn, rf |-> RF])>>)
Topology == [peers |-> Peers, lf |-> LF, lfn |-> LFn, rf |-> RF]
=============================================================================
