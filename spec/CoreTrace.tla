------------------------------ MODULE CoreTrace ------------------------------
(* Trace validation (monitor style) of executions of the real spine-go code *)
(* against SpineCore.  One ndjson line per executed step:                   *)
(*   a   the input (as generated), out/ev/ret what the code did,           *)
(*   st  the abstract state projected from the code through public getters *)
(* For each line the monitor computes Outcomes(st, a) from the state the    *)
(* CODE was in (followed) and requires the observation to agree with one    *)
(* allowed outcome on every component in Checked.  It never gets stuck:     *)
(* a disagreement is recorded in bad and validation continues from the      *)
(* observed state, so the rest of the trace is still checked.               *)
EXTENDS SpineCore, Json, IOUtils, SequencesExt

CONSTANTS Checked       \* components compared (the property's projection)

TraceFile == IF "VERIF_TRACE" \in DOMAIN IOEnv THEN IOEnv.VERIF_TRACE ELSE "trace.ndjson"
Trace == ndJsonDeserialize(TraceFile)

VARIABLES l,      \* next trace line
          st,     \* abstract state followed from the observations
          bad,    \* sequence of [line, comps, a]
          devs    \* deviation name -> [n, first]

tvars == <<l, st, bad, devs>>

SetOf(seq) == {seq[i] : i \in DOMAIN seq}

ObsSt(e) == [ conn  |-> SetOf(e.st.conn),
              addr  |-> {p \in Peers : e.st.resa[p]},
              known |-> [p \in Peers |-> SetOf(e.st.known[p])],
              edesc |-> [p \in Peers |-> [x \in REnts |-> IF x \in DOMAIN e.st.edesc[p] THEN e.st.edesc[p][x] ELSE 0]],
              feats |-> [p \in Peers |-> {x \in SetOf(e.st.feats[p]) : x.f \in RemoteNames}],
              subs  |-> SetOf(e.st.subs),
              binds |-> SetOf(e.st.binds),
              csub  |-> SetOf(e.st.csub),
              cbind |-> SetOf(e.st.cbind),
              data  |-> [c \in Cells |-> e.st.data[c]],
              rdata |-> [p \in Peers |-> e.st.rdata[p]],
              rucs  |-> [p \in Peers |-> e.st.rucs[p]],
              ucs   |-> SetOf(e.st.ucs),
              nid   |-> e.st.nid,
              \* not observable through the API: carried by the monitor (see Step)
              unans |-> st.unans, cbs |-> st.cbs, rcbs |-> st.rcbs,
              nsub  |-> 0, nbind |-> 0, nfire |-> 0 ]

NormDg(d) == [k |-> d.k, ok |-> d.ok, ref |-> d.ref, src |-> d.src, dst |-> d.dst,
              fn |-> d.fn, val |-> d.val, ents |-> SetOf(d.ents), ucs |-> SetOf(d.ucs)]
ObsOutSeq(e, p) == [i \in DOMAIN e.out[p] |-> NormDg(e.out[p][i])]
ObsOut(e) == [p \in Peers |-> SetOf(ObsOutSeq(e, p))]

NormAct(a) == IF a.a = "discover" THEN [a EXCEPT !.ents = SetOf(@)]
              ELSE IF a.a = "ann" THEN [a EXCEPT !.items = [i \in DOMAIN @ |-> [@[i] EXCEPT !.fs = SetOf(@)]]]
              ELSE a

NoDup(seq) == \A i, j \in DOMAIN seq : seq[i] = seq[j] => i = j

\* observation-only requirements (functions of one trace line)
ObsDefects(e) ==
    (IF e.panic # "" THEN {"panic"} ELSE {})
    \* what the stack does for an input is done when the call returns (C15: the internal handlers have finished before
    \* publication returns): nothing is written to a connection afterwards
    \cup (IF e.late = 0 THEN {} ELSE {"late"})
    \* C11: the use-case data sets read from node management in earlier steps have not changed
    \cup (IF e.st.ucsnapok THEN {} ELSE {"ucsnap"})
    \* C03 / C07: what the device announces as readable / writable is what was configured (the write gate uses the latter)
    \cup (IF e.st.announceok THEN {} ELSE {"announce"})
    \cup (IF \A p \in Peers : NoDup(ObsOutSeq(e, p)) THEN {} ELSE {"dupout"})
    \cup (IF NoDup(e.ev) THEN {} ELSE {"dupev"})
    \cup (IF NoDup(e.cbf) THEN {} ELSE {"dupcb"})
    \* HasUseCaseSupport agrees with the registry read from the node management data, which holds one record per key
    \cup (IF /\ SetOf(e.st.hasuc) = {[e |-> x.e, actor |-> x.actor, name |-> x.name] : x \in SetOf(e.st.ucs)}
             /\ NoDup([i \in DOMAIN e.st.ucs |-> <<e.st.ucs[i].e, e.st.ucs[i].actor, e.st.ucs[i].name>>])
          THEN {} ELSE {"hasuc"})
    \cup (IF NoDup(e.st.subids) /\ NoDup(e.st.bindids) /\ NoDup(e.st.subs) /\ NoDup(e.st.binds)
             /\ \A p \in Peers : \A i \in DOMAIN e.out[p] : NoDup(e.out[p][i].ids) /\ Len(e.out[p][i].ids) = Len(e.out[p][i].ents)
          THEN {} ELSE {"ids"})
    \* the tree names only catalogue features, each at most once, each resolvable by its address
    \cup (IF \A p \in Peers : NoDup(e.st.feats[p]) /\ \A i \in DOMAIN e.st.feats[p] : e.st.feats[p][i].f \in RemoteNames
          THEN {} ELSE {"tree"})
    \cup (IF \A p \in Peers : /\ e.st.res[p] = (p \in SetOf(e.st.conn))
                              /\ (e.st.resa[p] => e.st.res[p])
                              /\ (e.st.res[p] => "0" \in SetOf(e.st.known[p]))
          THEN {} ELSE {"resolve"})

Comp(x, c) == CASE c = "out"   -> x.out
                [] c = "ev"    -> x.ev
                [] c = "ret"   -> x.ret
                [] c = "conn"  -> <<x.st.conn, x.st.addr>>
                [] c = "known" -> <<x.st.known, x.st.feats, x.st.edesc>>
                [] c = "subs"  -> x.st.subs
                [] c = "binds" -> x.st.binds
                [] c = "csub"  -> x.st.csub
                [] c = "cbind" -> x.st.cbind
                [] c = "data"  -> x.st.data
                [] c = "rdata" -> <<x.st.rdata, x.st.rucs>>
                [] c = "cbf"   -> x.cbf
                [] c = "ucs"   -> x.st.ucs
                [] c = "reqs"  -> x.st.nid
StateComps == {"out", "ev", "ret", "conn", "known", "subs", "binds", "csub", "cbind", "data", "rdata", "cbf", "reqs", "ucs"}
Mismatch(o, obs) == {c \in Checked \cap StateComps : Comp(o, c) # Comp(obs, c)}

Init == l = 1 /\ st = InitSt /\ bad = << >> /\ devs = << >>

Bump(d, name, line) == IF name \in DOMAIN d THEN [d EXCEPT ![name].n = @ + 1]
                       ELSE [x \in DOMAIN d \cup {name} |-> IF x = name THEN [n |-> 1, first |-> line] ELSE d[x]]

Step ==
    /\ l <= Len(Trace)
    /\ l' = l + 1
    /\ LET e == Trace[l] IN
       IF e.a.a = "reset" THEN st' = InitSt /\ UNCHANGED <<bad, devs>>
       ELSE LET a    == NormAct(e.a)
                obs  == [st |-> ObsSt(e), out |-> ObsOut(e), ev |-> SetOf(e.ev), ret |-> e.ret, cbf |-> SetOf(e.cbf)]
                outs == Outcomes(st, a)
                hit  == {o \in outs : Mismatch(o, obs) = {}}
                od   == ObsDefects(e) \cap Checked
                \* the mismatching components of the closest allowed outcome
                best == CHOOSE o \in outs : \A o2 \in outs : Cardinality(Mismatch(o, obs)) <= Cardinality(Mismatch(o2, obs))
            IN \* follow the code; the registered callbacks cannot be read back through the API and are taken from the
               \* allowed outcome that matched (or the closest one)
               /\ st' = [obs.st EXCEPT !.cbs = (IF hit # {} THEN CHOOSE o \in hit : TRUE ELSE best).st.cbs,
                                       !.rcbs = (IF hit # {} THEN CHOOSE o \in hit : TRUE ELSE best).st.rcbs,
                                       !.unans = (IF hit # {} THEN CHOOSE o \in hit : TRUE ELSE best).st.unans]
               /\ IF hit = {} \/ od # {}
                  THEN /\ bad' = Append(bad, [line |-> l, comps |-> Mismatch(best, obs) \cup od, a |-> e.a])
                       /\ devs' = devs
                  ELSE IF \E o \in hit : o.dev = Ideal THEN UNCHANGED <<bad, devs>>
                  ELSE /\ bad' = bad
                       /\ devs' = Bump(devs, (CHOOSE o \in hit : TRUE).dev, l)

TraceSpec == Init /\ [][Step]_tvars

\* printed once, in the final state
Final == l > Len(Trace) =>
            /\ PrintT(<<"BAD", ToJson(bad)>>)
            /\ PrintT(<<"DEVS", ToJson(devs)>>)
            /\ PrintT(<<"LINES", Len(Trace)>>)
Done == TLCGet("stats").diameter - 1 = Len(Trace)
=============================================================================
