------------------------------ MODULE EventBus ------------------------------
(***************************************************************************)
(* The event bus (C15): handlers at core and application level, publish    *)
(* with a snapshot of the handlers, core handlers synchronously and first, *)
(* application handlers asynchronously; handlers that subscribe,           *)
(* unsubscribe or publish while handling an event.                         *)
(* Handlers have a fixed body (constant Body):                             *)
(*   <<"none","">> | <<"unsubself","">> | <<"unsub", h>> | <<"sub", h>> |  *)
(*   <<"publish","">> | <<"waitfor", h>>  (pairs: all bodies have one      *)
(*   shape; waitfor: an application handler that returns only after        *)
(*   application handler h has been entered for the same event - handlers  *)
(*   of one event do not depend on each other)                             *)
(* A body acts only on top-level events (so nesting is bounded).           *)
(***************************************************************************)
EXTENDS Naturals, Sequences, FiniteSets, TLC, Json

CONSTANTS Handlers,     \* e.g. {"c1","c2","c3","a1","a2","a3"}; names starting with c are core level
          Body,         \* [Handlers -> body]
          MaxLen, Acts

Level(h) == IF h \in {"c1", "c2", "c3"} THEN "core" ELSE "app"
IsCore(h) == Level(h) = "core"

\* state: the handler list (a sequence without duplicates, in subscription order)
InitB == << >>
SeqSet(s) == {s[i] : i \in DOMAIN s}
Remove(s, h) == SelectSeq(s, LAMBDA x : x # h)
Add(s, h) == IF h \in SeqSet(s) THEN s ELSE Append(s, h)

\* the effect of handler h's body on the handler list, and whether it publishes a nested event
BodyEffect(s, h) ==
    LET b == Body[h] IN
    IF b[1] = "none" \/ b[1] = "publish" \/ b[1] = "waitfor" THEN s     \* waitfor h: returns only after handler h has been entered for the same event
    ELSE IF b[1] = "unsubself" THEN Remove(s, h)
    ELSE IF b[1] = "unsub" THEN Remove(s, b[2])
    ELSE Add(s, b[2])
RECURSIVE ApplyBodies(_, _, _)
ApplyBodies(s, hs, i) == IF i > Len(hs) THEN s ELSE ApplyBodies(BodyEffect(s, hs[i]), hs, i + 1)

\* Publish(ev): deliveries = the snapshot; afterwards the bodies have acted (core ones in order during the publish,
\* application ones later - their effects commute in the configurations used); a handler with body "publish"
\* publishes the nested event once, which is delivered to the handlers subscribed at that moment (bodies do not act on it)
PublishOut(s, ev) ==
    LET snap == s
        after == ApplyBodies(s, snap, 1)
        nested == {h \in SeqSet(snap) : Body[h][1] = "publish" /\ ~IsCore(h)}
    IN [s |-> after,
        del |-> {[ev |-> ev, h |-> snap[i]] : i \in DOMAIN snap}
                \cup {[ev |-> ev \o "n", h |-> after[i]] : i \in {j \in DOMAIN after : nested # {}}}]

Outcome(s, a) == CASE a.op = "sub"     -> [s |-> Add(s, a.h), del |-> {}]
                   [] a.op = "unsub"   -> [s |-> Remove(s, a.h), del |-> {}]
                   [] a.op = "publish" -> PublishOut(s, a.ev)

=============================================================================
