----------------------------- MODULE EventBusMC -----------------------------
EXTENDS EventBus
VARIABLES st, hist, n
vars == <<st, hist, n>>
Init == st = InitB /\ hist = << >> /\ n = 0
EvName(i) == "e" \o ToString(i)
Inputs(s) == (IF "sub" \in Acts THEN {[op |-> "sub", h |-> h] : h \in Handlers} ELSE {})
             \cup (IF "unsub" \in Acts THEN {[op |-> "unsub", h |-> h] : h \in Handlers} ELSE {})
             \cup (IF "publish" \in Acts THEN {[op |-> "publish", ev |-> EvName(n + 1)]} ELSE {})
Next == /\ Len(hist) < MaxLen
        /\ \E a \in Inputs(st) :
              /\ st' = Outcome(st, a).s /\ hist' = Append(hist, a)
              /\ n' = IF a.op = "publish" THEN n + 1 ELSE n
Spec == Init /\ [][Next]_vars
View == <<st, n>>
Emit == PrintT(<<"B", ToJson(hist')>>)
\* no duplicates in the handler list; a publish delivers to every subscribed handler exactly once (sets, by construction)
Inv == \A i, j \in DOMAIN st : st[i] = st[j] => i = j
=============================================================================
