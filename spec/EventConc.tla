------------------------------ MODULE EventConc ------------------------------
(* Free-running rounds on the real event bus (C15, schedules clause): goroutines publish, subscribe and unsubscribe at   *)
(* once.  calls: [op, h, ev, start, end] (start / end from one atomic sequence counter around the call), dels: the       *)
(* deliveries [ev, h].  Required of every round:                                                                        *)
(*   - no event reaches a handler twice;                                                                                 *)
(*   - an event reaches a handler whose last (un)subscription completed before the publication started, with no other   *)
(*     (un)subscription of that handler overlapping since, exactly if that was a subscription;                          *)
(*   - nothing hangs.                                                                                                    *)
EXTENDS Naturals, Sequences, FiniteSets, TLC, Json, IOUtils
TraceFile == IF "VERIF_TRACE" \in DOMAIN IOEnv THEN IOEnv.VERIF_TRACE ELSE "trace.ndjson"
Trace == ndJsonDeserialize(TraceFile)
SetOfSeq(s) == {s[i] : i \in DOMAIN s}
Handlers == {"c1", "c2", "a1", "a2", "a3"}

Count(r, ev, h) == Cardinality({i \in DOMAIN r.dels : r.dels[i].ev = ev /\ r.dels[i].h = h})
OpsOn(r, h) == {c \in SetOfSeq(r.calls) : c.op \in {"sub", "unsub"} /\ c.h = h}
\* the state of h at publication P, if it is determined
Determined(r, P, h) ==
    LET before == {c \in OpsOn(r, h) : c.end < P.start}
        lastB == IF before = {} THEN [op |-> "unsub", start |-> 0, end |-> 0]
                 ELSE CHOOSE c \in before : \A d \in before : d.start <= c.start
        clash == \E c \in OpsOn(r, h) : c # lastB /\ c.end > lastB.start /\ c.start < P.end
    IN IF clash THEN "unknown" ELSE lastB.op

RoundDefects(r) ==
    (IF r.hung THEN {"a call hangs"} ELSE {})
    \cup UNION {UNION {(IF Count(r, P.ev, h) <= 1 THEN {} ELSE {"event delivered twice to one handler"})
                       \cup (IF Determined(r, P, h) = "sub" /\ Count(r, P.ev, h) # 1 THEN {"event not delivered to a subscribed handler"} ELSE {})
                       \cup (IF Determined(r, P, h) = "unsub" /\ Count(r, P.ev, h) # 0 THEN {"event delivered after the unsubscription had returned"} ELSE {})
                       : h \in Handlers}
                : P \in {c \in SetOfSeq(r.calls) : c.op = "publish"}}

VARIABLE l
Init == l = 1
Next == l <= Len(Trace) /\ l' = l + 1
Spec == Init /\ [][Next]_l
Final == l > Len(Trace) => PrintT(<<"CONC", ToJson([i \in {j \in 1..Len(Trace) : RoundDefects(Trace[j]) # {}} |-> RoundDefects(Trace[i])])>>) /\ PrintT(<<"ROUNDS", Len(Trace)>>)
=============================================================================
