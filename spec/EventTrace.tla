----------------------------- MODULE EventTrace -----------------------------
(* Monitor for executions of the real event bus.  A line per operation of the main goroutine, logged at quiescence:  *)
(*  op, h / ev, del: deliveries [ev, h] observed since the previous line (a bag), flags computed from sequence numbers *)
(*  taken inside the handlers: coreafterreturn (a core handler of the event ran after Publish returned), appbeforecore  *)
(*  (an application handler of the event started before all core handlers of it had finished), blocked.              *)
EXTENDS EventBus, IOUtils
TraceFile == IF "VERIF_TRACE" \in DOMAIN IOEnv THEN IOEnv.VERIF_TRACE ELSE "trace.ndjson"
Trace == ndJsonDeserialize(TraceFile)
VARIABLES l, ts, bad
tvars == <<l, ts, bad>>
TInit == l = 1 /\ ts = InitB /\ bad = << >>
NoDup(seq) == \A i, j \in DOMAIN seq : seq[i] = seq[j] => i = j
TStep == /\ l <= Len(Trace) /\ l' = l + 1
         /\ LET e == Trace[l] IN
            IF e.op = "reset" THEN ts' = InitB /\ bad' = bad
            ELSE LET o == Outcome(ts, e)
                     obs == {[ev |-> e.del[i].ev, h |-> e.del[i].h] : i \in DOMAIN e.del}
                     why == (IF obs = o.del THEN {} ELSE {"deliveries differ from the handlers subscribed at publication"})
                            \cup (IF NoDup(e.del) THEN {} ELSE {"event delivered twice to one handler"})
                            \cup (IF e.coreafterreturn THEN {"core handler still running after Publish returned"} ELSE {})
                            \cup (IF e.appbeforecore THEN {"application handler ran before the core handlers had finished"} ELSE {})
                            \cup (IF e.blocked THEN {"operation blocked"} ELSE {})
                 IN ts' = o.s /\ bad' = IF why = {} THEN bad ELSE Append(bad, [line |-> l, op |-> e.op, why |-> why])
TraceSpec == TInit /\ [][TStep]_tvars
Final == l > Len(Trace) => PrintT(<<"BAD", ToJson(bad)>>) /\ PrintT(<<"LINES", Len(Trace)>>)
Done == TLCGet("stats").diameter - 1 = Len(Trace)
=============================================================================
