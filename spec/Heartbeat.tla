------------------------------ MODULE Heartbeat ------------------------------
(***************************************************************************)
(* Heartbeat start / stop (C16) at the granularity of the code:            *)
(*   Stop :  check "running" -> [StopHeartbeat.beforeClose] -> close the   *)
(*           channel that the field holds NOW                              *)
(*   Start:  Stop (as above) -> [StartHeartbeat.afterStop] -> make a       *)
(*           channel and store it in the field -> [StartHeartbeat.         *)
(*           afterMake] -> spawn the stream on the channel the field       *)
(*           holds NOW                                                     *)
(* A stream lives until its channel is closed.  Closing a closed channel   *)
(* is a panic.  Atomic = TRUE runs every call in one step (a mutex around  *)
(* start / stop).                                                          *)
(***************************************************************************)
EXTENDS Naturals, Sequences, FiniteSets, TLC, Json

CONSTANTS Procs, Atomic

VARIABLES kind,      \* [Procs -> "start" | "stop"]
          chan,      \* the field: 0 = nil, else channel id
          closed,    \* set of closed channel ids
          streams,   \* set of channel ids on which a stream was spawned (a bag is not needed: see TwoOnOne)
          dup,       \* TRUE if two streams were spawned on one channel
          nextc, pc, panicked, sched, init0
vars == <<kind, chan, closed, streams, dup, nextc, pc, panicked, sched, init0>>

Running == chan # 0 /\ chan \notin closed
Live == streams \ closed

Init == /\ kind \in [Procs -> {"start", "stop"}]
        /\ init0 \in BOOLEAN                        \* heartbeat running at the beginning?
        /\ chan = (IF init0 THEN 1 ELSE 0) /\ closed = {} /\ streams = (IF init0 THEN {1} ELSE {}) /\ dup = FALSE
        /\ nextc = 2 /\ pc = [p \in Procs |-> "begin"] /\ panicked = FALSE /\ sched = << >>

Close == IF chan \in closed \/ chan = 0 THEN panicked' = TRUE /\ UNCHANGED closed
         ELSE closed' = closed \cup {chan} /\ UNCHANGED panicked

\* one step of process p: from its current point to the next hook point (or its end)
Step(p) ==
    /\ pc[p] # "done" /\ ~panicked
    /\ sched' = Append(sched, p)
    /\ UNCHANGED <<kind, init0>>
    /\ CASE pc[p] = "begin" ->          \* the running check of Stop (also the one inside Start)
              /\ pc' = [pc EXCEPT ![p] = IF Running THEN "close" ELSE IF kind[p] = "stop" THEN "done" ELSE "make"]
              /\ UNCHANGED <<chan, closed, streams, dup, nextc, panicked>>
         [] pc[p] = "close" ->
              /\ Close
              /\ pc' = [pc EXCEPT ![p] = IF kind[p] = "stop" THEN "done" ELSE "make"]
              /\ UNCHANGED <<chan, streams, dup, nextc>>
         [] pc[p] = "make" ->
              /\ chan' = nextc /\ nextc' = nextc + 1
              /\ pc' = [pc EXCEPT ![p] = "spawn"]
              /\ UNCHANGED <<closed, streams, dup, panicked>>
         [] pc[p] = "spawn" ->
              /\ streams' = streams \cup {chan} /\ dup' = (dup \/ chan \in streams)
              /\ pc' = [pc EXCEPT ![p] = "done"]
              /\ UNCHANGED <<chan, closed, nextc, panicked>>

\* a whole call in one step
RECURSIVE RunAll(_, _)
AtomicStep(p) ==
    /\ pc[p] = "begin" /\ ~panicked
    /\ sched' = Append(sched, p)
    /\ pc' = [pc EXCEPT ![p] = "done"]
    /\ UNCHANGED <<kind, init0, dup, panicked>>
    /\ LET cl == IF Running THEN closed \cup {chan} ELSE closed IN
       IF kind[p] = "stop" THEN closed' = cl /\ UNCHANGED <<chan, streams, nextc>>
       ELSE closed' = cl /\ chan' = nextc /\ nextc' = nextc + 1 /\ streams' = streams \cup {nextc}
RunAll(a, b) == a

Next == \E p \in Procs : IF Atomic THEN AtomicStep(p) ELSE Step(p)
Spec == Init /\ [][Next]_vars

Quiescent == panicked \/ \A p \in Procs : pc[p] = "done"
\* C16: no panic; never two concurrent streams; the live stream is the one IsHeartbeatRunning reports
NoPanic == ~panicked
AtMostOneStream == Cardinality(Live) <= 1 /\ ~dup
RunningMeansLive == Quiescent /\ ~panicked => (Running <=> Live # {}) /\ (Live # {} => Live = {chan})
Safe == NoPanic /\ AtMostOneStream /\ RunningMeansLive
EmitInv == Quiescent => PrintT(<<"S", ToJson([kind |-> kind, init |-> init0, sched |-> sched,
                                              unsafe |-> ~(NoPanic /\ AtMostOneStream /\ ((Running <=> Live # {}) /\ (Live # {} => Live = {chan})))])>>)
=============================================================================
