---------------------------- MODULE HeartbeatTrace ----------------------------
(* Validation of heartbeat executions on the real HeartbeatManager (C16) against the contract of the ATOMIC model:      *)
(*  mode "sched":   a forced interleaving of start / stop calls (spec/Heartbeat.tla); afterwards the number of live     *)
(*                  streams must be what some linearization of the calls (consistent with their real-time order) gives,  *)
(*                  never more than one, and IsHeartbeatRunning must agree with it; no call may panic;                   *)
(*  mode "seq":     sequential histories of start / stop / remove entity / add entity; after every operation the          *)
(*                  heartbeat runs iff the operation was start;                                                           *)
(*  mode "periods": the ticker period is positive and does not exceed the announced timeout;                            *)
(*  mode "slow":    after a subscriber's connection blocked for 2.5 s the refreshes still carry a current timestamp.     *)
(* live = streams that refreshed the data at least twice in the observation window (one refresh may be in flight at a     *)
(* stop); every refresh carries a strictly larger counter and is notified to the subscriber.                             *)
EXTENDS Naturals, Sequences, FiniteSets, TLC, Json, IOUtils

TraceFile == IF "VERIF_TRACE" \in DOMAIN IOEnv THEN IOEnv.VERIF_TRACE ELSE "trace.ndjson"
Trace == ndJsonDeserialize(TraceFile)
SetOfSeq(s) == {s[i] : i \in DOMAIN s}

CanBeLast(e) == {o \in SetOfSeq(e.ops) : ~\E o2 \in SetOfSeq(e.ops) : o.last < o2.first}
AllowedLive(e) == IF e.ops = << >> THEN {IF e.init THEN 1 ELSE 0}
                  ELSE {IF o.kind = "start" THEN 1 ELSE 0 : o \in CanBeLast(e)}

Common(e, live) ==
    (IF e.panic = "" THEN {} ELSE {"panic or hang"})
    \cup (IF e.live <= 1 THEN {} ELSE {"two concurrent heartbeat streams"})
    \cup (IF e.running = (e.live = 1) THEN {} ELSE {"IsHeartbeatRunning disagrees with the streams that refresh the data"})
    \cup (IF e.live \in live THEN {} ELSE {"heartbeat running / not running against the order of the calls"})
    \cup (IF e.ctrok THEN {} ELSE {"heartbeat counter not strictly increasing"})
    \cup (IF e.notified THEN {} ELSE {"refreshes and notifications to the subscriber differ"})
    \cup (IF e.periodok THEN {} ELSE {"ticker period not in (0, timeout]"})
    \* periodic: a live stream refreshes once per period; a stopped one at most once more
    \cup (IF (e.live = 1 => e.rate >= e.window - 2 /\ e.rate <= e.window + 2) /\ (e.live = 0 => e.rate <= 1) THEN {} ELSE {"refresh rate does not match the period"})

\* sequential histories: start -> running; stop and entity removal -> not running; adding the entity, or adding the
\* heartbeat function to its feature once more ("addfn"), changes nothing
RECURSIVE RunningAfter(_, _, _)
RunningAfter(ops, i, r) == IF i > Len(ops) THEN r
                           ELSE RunningAfter(ops, i + 1, IF ops[i] = "start" THEN TRUE ELSE IF ops[i] \in {"stop", "rement"} THEN FALSE ELSE r)
Defects(e) == CASE e.mode = "sched"   -> Common(e, AllowedLive(e))
                [] e.mode = "seq"     -> Common(e, {IF RunningAfter(Append(e.pre, e.op), 1, TRUE) THEN 1 ELSE 0})
                [] e.mode = "periods" -> (IF e.periodok /\ e.panic = "" THEN {} ELSE {"ticker period not in (0, timeout] or announced timeout wrong"})
                \* a subscriber whose connection blocked for 2.5 s: the refreshes go on and carry a current timestamp
                \* (timestamps are rounded to seconds: an age of up to 1.5 s counts as current: half a second of rounding plus scheduling latency)
                [] e.mode = "slow"    -> (IF e.panic = "" THEN {} ELSE {"panic or hang"})
                                         \cup (IF e.after >= 1 THEN {} ELSE {"no refresh after a slow subscriber"})
                                         \cup (IF e.maxagems <= 1500 THEN {} ELSE {"refresh carries a stale timestamp"})
                [] OTHER -> {"unknown mode"}

VARIABLE l
Init == l = 1
Next == l <= Len(Trace) /\ l' = l + 1
Spec == Init /\ [][Next]_l
Bad == {i \in 1..Len(Trace) : Defects(Trace[i]) # {}}
Final == l > Len(Trace) =>
           /\ PrintT(<<"RACEBAD", ToJson([i \in Bad |-> [line |-> i, defects |-> Defects(Trace[i])]])>>)
           /\ PrintT(<<"RACESTAT", ToJson([lines |-> Len(Trace),
                                           realised |-> Cardinality({i \in 1..Len(Trace) : Trace[i].realised}),
                                           unsaferealised |-> Cardinality({i \in 1..Len(Trace) : Trace[i].realised /\ Trace[i].unsafe})])>>)
=============================================================================
