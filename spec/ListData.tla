------------------------------ MODULE ListData ------------------------------
(***************************************************************************)
(* SPINE 5.3.4 restricted function exchange on list-typed function data    *)
(* (C02), write protection and all-or-nothing remote writes (C04),         *)
(* snapshot stability (C11).                                               *)
(*                                                                         *)
(* An item is [k, v, w, chg]:                                              *)
(*   k    tuple of key values (length 1 or 2; 0 = key part absent)         *)
(*   v,w  two value fields (0 = absent)                                    *)
(*   chg  changeability flag "t" | "f" | "nil" (types without flag: "nil") *)
(* A list is a sequence of items.  An update is                            *)
(*   [data, partial, psel, delete, dsel, delem, remote, persist]           *)
(*   partial "none" | "empty" | "sel"      (psel: selector on the key)     *)
(*   delete  "none" | "sel" | "elem" | "selelem"  (dsel, delem \subseteq   *)
(*           {"v","w"} = fields to clear)                                  *)
(*   remote  TRUE = write received from a peer (C04), FALSE = local API,   *)
(*           reply or notify                                               *)
(* Apply(L, u) is the set of allowed outcomes [list, ok, dev].             *)
(***************************************************************************)
EXTENDS Naturals, Integers, Sequences, FiniteSets, TLC, SequencesExt

CONSTANTS KnownDeviations,
          HasFlag          \* TRUE: the element type has a changeability flag

Nil == 0
Item(k, v, w, chg) == [k |-> k, v |-> v, w |-> w, chg |-> chg]
HasId(it) == \A i \in DOMAIN it.k : it.k[i] # Nil
SeqSet(s) == {s[i] : i \in DOMAIN s}

\* lexicographic order on key tuples of equal length
KeyLess(a, b) == \E i \in DOMAIN a : a[i] < b[i] /\ \A j \in 1..(i - 1) : a[j] = b[j]
Sorted(L) == \A i, j \in DOMAIN L : i < j => KeyLess(L[i].k, L[j].k) \/ L[i].k = L[j].k
UniqueKeys(L) == \A i, j \in DOMAIN L : L[i].k = L[j].k => i = j
SortByKey(L) == SortSeq(L, LAMBDA x, y : KeyLess(x.k, y.k))

\* selector [k]: key parts that are not Nil must be equal
Matches(it, sel) == \A i \in DOMAIN sel.k : sel.k[i] = Nil \/ sel.k[i] = it.k[i]

Changeable(it) == ~HasFlag \/ it.chg = "t"

---------------------------------------------------------------------------
(* Local semantics (reply, notify, local API): the cmdOption rules.        *)

\* merge the fields of new into old (same key): unmentioned fields are kept
MergeItem(old, new, keepFlag) ==
    Item(old.k, IF new.v # Nil THEN new.v ELSE old.v, IF new.w # Nil THEN new.w ELSE old.w,
         IF keepFlag \/ new.chg = "nil" THEN old.chg ELSE new.chg)
\* copy the mentioned fields of src into dst (selector and identifier-less updates); the key of src is absent or equal
CopyInto(dst, src, keepFlag) == MergeItem(dst, src, keepFlag)

ClearFields(it, fs) == Item(it.k, IF "v" \in fs THEN Nil ELSE it.v, IF "w" \in fs THEN Nil ELSE it.w, it.chg)

DeleteStep(L, u) ==
    CASE u.delete = "none"    -> L
      [] u.delete = "sel"     -> SelectSeq(L, LAMBDA it : ~Matches(it, u.dsel))
      [] u.delete = "elem"    -> [i \in DOMAIN L |-> ClearFields(L[i], u.delem)]
      [] u.delete = "selelem" -> [i \in DOMAIN L |-> IF Matches(L[i], u.dsel) THEN ClearFields(L[i], u.delem) ELSE L[i]]

FirstMatch(L, sel) == IF \E i \in DOMAIN L : Matches(L[i], sel)
                      THEN CHOOSE i \in DOMAIN L : Matches(L[i], sel) /\ \A j \in 1..(i - 1) : ~Matches(L[j], sel)
                      ELSE 0

MergeLists(L, D, keepFlag, appendNew) ==
    LET merged == [i \in DOMAIN L |-> IF \E j \in DOMAIN D : D[j].k = L[i].k
                                      THEN MergeItem(L[i], D[CHOOSE j \in DOMAIN D : D[j].k = L[i].k], keepFlag) ELSE L[i]]
        new    == SelectSeq(D, LAMBDA d : ~\E i \in DOMAIN L : L[i].k = d.k)
    IN SortByKey(IF appendNew THEN merged \o new ELSE merged)

UpdateStep(L1, u, keepFlag, appendNew) ==
    IF u.partial = "sel" THEN
         LET i == FirstMatch(L1, u.psel) IN
         IF i = 0 \/ Len(u.data) = 0 THEN L1 ELSE [L1 EXCEPT ![i] = CopyInto(@, u.data[1], keepFlag)]
    ELSE IF Len(u.data) > 0 /\ ~HasId(u.data[1]) THEN [i \in DOMAIN L1 |-> CopyInto(L1[i], u.data[1], keepFlag)]
    ELSE MergeLists(L1, u.data, keepFlag, appendNew)

IsFull(u) == u.partial = "none" /\ u.delete = "none"

\* the data after a local update (a full update replaces; the result is ordered by identifier)
LocalResult(L, u) ==
    IF IsFull(u) /\ u.persist THEN SortByKey(u.data)
    ELSE UpdateStep(DeleteStep(L, u), u, FALSE, TRUE)

---------------------------------------------------------------------------
(* Remote write (C04).                                                     *)
\* the items a write addresses: those it would modify or delete
Addressed(L, u) ==
    LET afterDel == DeleteStep(L, u)
        delIdx == {i \in DOMAIN L : CASE u.delete = "none" -> FALSE
                                      [] u.delete = "sel" -> Matches(L[i], u.dsel)
                                      [] u.delete = "elem" -> TRUE
                                      [] u.delete = "selelem" -> Matches(L[i], u.dsel)}
        updIdx == IF IsFull(u) THEN DOMAIN L
                  ELSE IF u.partial = "sel" THEN (IF Len(u.data) = 0 THEN {} ELSE {i \in DOMAIN L : i = FirstMatch(L, u.psel)})
                  ELSE IF Len(u.data) > 0 /\ ~HasId(u.data[1]) THEN DOMAIN L
                  ELSE {i \in DOMAIN L : \E j \in DOMAIN u.data : u.data[j].k = L[i].k}
    IN delIdx \cup updIdx

\* identifiers of the update that the list (after the delete step of the same command) does not contain
UnknownIds(L0, u) == LET L == DeleteStep(L0, u) IN
                     {j \in DOMAIN u.data : HasId(u.data[j]) /\ ~\E i \in DOMAIN L : L[i].k = u.data[j].k}

Res(list, ok, dev) == [list |-> list, ok |-> ok, dev |-> dev]

\* allowed outcomes of a remote write: rejected with the data untouched, or accepted with every change applied, the
\* flag of no element altered.  An identifier unknown to the list may be appended or make the write fail, but is not
\* dropped under a success.  The selector write confines itself to the selected item.
RemoteIdeal(L, u) ==
    LET addr == Addressed(L, u)
        okAll == \A i \in addr : Changeable(L[i])
        applied(appendNew) ==
            IF IsFull(u)
            THEN \* a full write replaces the list; elements that stay keep their flag
                 SortByKey([j \in DOMAIN u.data |-> IF \E i \in DOMAIN L : L[i].k = u.data[j].k
                                                    THEN [u.data[j] EXCEPT !.chg = L[CHOOSE i \in DOMAIN L : L[i].k = u.data[j].k].chg]
                                                    ELSE u.data[j]])
            ELSE UpdateStep(DeleteStep(L, u), u, TRUE, appendNew)
    IN IF ~okAll THEN {Res(L, FALSE, "ideal")}
       ELSE IF UnknownIds(L, u) = {} \/ IsFull(u) \/ u.partial = "sel" THEN {Res(applied(TRUE), TRUE, "ideal")}
       ELSE {Res(applied(TRUE), TRUE, "ideal"), Res(L, FALSE, "ideal")}

---------------------------------------------------------------------------
(* What the engine does where it deviates (named; accepted only if listed  *)
(* in KnownDeviations).  Each reproduces the code's result exactly, so a   *)
(* different wrong result is still reported.                               *)

\* full update stored as given (not ordered by identifier)
Dev_FullKeepsOrder(L, u) == Res(u.data, TRUE, "FullUpdateNotSorted")

\* engine result of a remote write (collection_operations.go / update.go), including its write checks
EngineDelete(L, u) ==   \* returns [list, ok, touched]: touched = list as modified in place even when ok is FALSE
    IF u.delete = "none" \/ (u.delete = "elem" /\ u.delem = {}) THEN [list |-> L, ok |-> TRUE, touched |-> L]
    ELSE LET bad == \E i \in DOMAIN L : ~Changeable(L[i])
             touched == [i \in DOMAIN L |-> IF ~Changeable(L[i]) THEN L[i]
                                            ELSE IF u.delete = "elem" \/ (u.delete = "selelem" /\ Matches(L[i], u.dsel)) THEN ClearFields(L[i], u.delem)
                                            ELSE L[i]]
             kept == SelectSeq(touched, LAMBDA it : Changeable(it) /\ ~(u.delete = "sel" /\ Matches(it, u.dsel)))
         IN [list |-> IF bad THEN touched ELSE kept, ok |-> ~bad, touched |-> touched]

EngineRemote(L, u) ==
    IF IsFull(u) THEN Res(u.data, TRUE, "engine")                                       \* replaced wholesale
    ELSE LET d == EngineDelete(L, u)
             L1 == d.list
         IN IF u.partial = "sel" THEN
                 LET i == FirstMatch(L1, u.psel) IN
                 IF i = 0 THEN Res(L1, d.ok, "engine")
                 ELSE IF ~Changeable(L1[i]) THEN Res(L1, FALSE, "engine")
                 ELSE Res([L1 EXCEPT ![i] = CopyInto(@, u.data[1], TRUE)], d.ok, "engine")           \* (the flag is kept since the fix for WriteAltersFlag)
            ELSE IF Len(u.data) > 0 /\ ~HasId(u.data[1]) THEN
                 Res([i \in DOMAIN L1 |-> IF Changeable(L1[i]) THEN CopyInto(L1[i], u.data[1], TRUE) ELSE L1[i]],
                     d.ok /\ \A i \in DOMAIN L1 : Changeable(L1[i]), "engine")
            ELSE \* merge: any unchangeable element fails the write; unknown identifiers are dropped
                 Res(MergeLists(L1, u.data, TRUE, FALSE), d.ok /\ \A i \in DOMAIN L1 : Changeable(L1[i]), "engine")

\* the stored list after the engine's remote write: a failed write leaves the list as it was (the engine runs on a
\* copy since the fix recorded for C11 / C04; before it, selector, identifier-less and delete-elements writes had
\* already modified changeable elements in place: the former deviation FailedWriteAlreadyApplied)
EngineStored(L, u) ==
    LET r == EngineRemote(L, u) IN IF r.ok THEN r.list ELSE L

\* classification of a remote-write deviation by what went wrong (the names listed in known_findings.json)
RemoteDevName(L, u, stored, ok) ==
    LET ideal == RemoteIdeal(L, u)
        idealOk == \E r \in ideal : r.ok
    IN  IF IsFull(u) THEN "FullWriteBypassesWriteCheck"
        ELSE IF ~ok /\ idealOk THEN "UnaddressedProtectedElementRejectsWrite"
        ELSE IF ok /\ \E i \in DOMAIN L : \E j \in DOMAIN stored : stored[j].k = L[i].k /\ stored[j].chg # L[i].chg THEN "WriteAltersFlag"
        ELSE IF ok /\ UnknownIds(L, u) # {} THEN "UnknownIdDroppedWithSuccess"
        ELSE "other"

Apply(L, u) ==
    IF ~u.remote THEN
        {Res(LocalResult(L, u), TRUE, "ideal")}
        \cup (IF IsFull(u) /\ u.persist /\ "FullUpdateNotSorted" \in KnownDeviations /\ u.data # SortByKey(u.data)
              THEN {Dev_FullKeepsOrder(L, u)} ELSE {})
    ELSE LET ideal == RemoteIdeal(L, u)
             eng == EngineRemote(L, u)
             stored == EngineStored(L, u)
             name == RemoteDevName(L, u, stored, eng.ok)
         IN ideal \cup (IF Res(stored, eng.ok, "ideal") \notin ideal /\ name \in KnownDeviations
                        THEN {Res(stored, eng.ok, name)} ELSE {})

---------------------------------------------------------------------------
(* Algebraic properties of the local rules (checked by TLC over the whole  *)
(* small domain in ListMC).                                                *)
WellFormed(L) == UniqueKeys(L) /\ \A i \in DOMAIN L : HasId(L[i])
P_Idempotent(L, u) == LocalResult(LocalResult(L, u), u) = LocalResult(L, u)
P_UniqueSorted(L, u) == LET R == LocalResult(L, u) IN UniqueKeys(R) /\ Sorted(R)
P_FullReplaces(L, u) == (IsFull(u) /\ u.persist) => SeqSet(LocalResult(L, u)) = SeqSet(u.data)
P_KeepsUnmentioned(L, u) ==
    (u.partial = "empty" /\ u.delete = "none" /\ (Len(u.data) = 0 \/ HasId(u.data[1]))) =>
        \A i \in DOMAIN L : (~\E j \in DOMAIN u.data : u.data[j].k = L[i].k) => L[i] \in SeqSet(LocalResult(L, u))
\* C04 on the ideal remote rules
P_WriteProtect(L, u) ==
    \A r \in RemoteIdeal(L, u) :
        /\ \A i \in DOMAIN L : ~Changeable(L[i]) => L[i] \in SeqSet(r.list)                 \* untouched, not deleted
        \* flag immutable (an element that the write deletes and creates again is a new element)
        /\ \A i \in DOMAIN L : (u.delete = "sel" /\ Matches(L[i], u.dsel)) \/
                                 \A j \in DOMAIN r.list : r.list[j].k = L[i].k => r.list[j].chg = L[i].chg
        /\ (~r.ok => r.list = L)                                                               \* all or nothing
=============================================================================
