------------------------------- MODULE ListMC -------------------------------
(* Exhaustive enumeration of (existing list, update) cases and of short update histories over a small identifier *)
(* domain; checks the algebraic properties of ListData and emits the cases / histories as JSON for replay.       *)
EXTENDS ListData, Json

CONSTANTS NKeys,       \* 1 or 2 key fields
          Mode,        \* "cases": every (list, update) pair once;  "hist": update histories (BFS with VIEW)
          MaxLen,      \* history length
          Origins,     \* subset of {"local", "remote"}
          Rich         \* TRUE: the larger update domain

StoredKeys == IF NKeys = 1 THEN {<<1>>, <<2>>} ELSE {<<1, 1>>, <<1, 2>>, <<2, 1>>}
NewKeys    == IF NKeys = 1 THEN {<<3>>} ELSE {<<2, 2>>}
AllKeys    == StoredKeys \cup NewKeys
NoKey      == IF NKeys = 1 THEN <<0>> ELSE <<0, 0>>
Flags      == IF HasFlag THEN {"t", "f", "nil"} ELSE {"nil"}

\* stored lists: every key absent or present in one variant; identifiers always present; ascending order
StoredVariants == {[v |-> v, w |-> w, chg |-> c] : v \in {1}, w \in (IF Rich THEN {0, 1} ELSE {1}), c \in Flags}
Absent == [v |-> 0, w |-> 0, chg |-> "absent"]
StoredLists == {SortByKey(SetToSeq({Item(k, f[k].v, f[k].w, f[k].chg) : k \in {x \in StoredKeys : f[x] # Absent}})) :
                    f \in [StoredKeys -> StoredVariants \cup {Absent}]}

\* update items: a few variants per key (new value, second field, flag given)
DataVariants == {[v |-> 2, w |-> 0, chg |-> "nil"], [v |-> 0, w |-> 2, chg |-> "nil"]}
                \cup (IF Rich THEN {[v |-> 2, w |-> 2, chg |-> "nil"]} ELSE {})
                \cup (IF HasFlag THEN {[v |-> 2, w |-> 0, chg |-> "f"], [v |-> 0, w |-> 0, chg |-> "t"]} ELSE {})
DataItems(keys) == {Item(k, d.v, d.w, d.chg) : k \in keys, d \in DataVariants}
One(keys) == {<<x>> : x \in DataItems(keys)}
Two(keys) == {<<x, y>> : x \in DataItems(keys), y \in DataItems(keys)} \ {<<x, y>> \in DataItems(keys) \X DataItems(keys) : x.k = y.k}
Sel(k) == [k |-> k]
NoSel == [k |-> NoKey]
Elems == IF Rich THEN {{"v"}, {"w"}, {"v", "w"}} ELSE {{"v"}, {"v", "w"}}
SelKeys == IF NKeys = 1 THEN AllKeys ELSE AllKeys \cup {<<1, 0>>}      \* a selector on the first key part only

U(data, partial, psel, delete, dsel, delem, remote, persist) ==
    [data |-> data, partial |-> partial, psel |-> psel, delete |-> delete, dsel |-> dsel, delem |-> delem,
     remote |-> remote, persist |-> persist]

Shapes(remote, persist) ==
    \* full update (also with items in descending order), empty list
    {U(d, "none", NoSel, "none", NoSel, {}, remote, persist) : d \in {<< >>} \cup One(AllKeys) \cup Two(AllKeys)}
    \* not persisting, without filter, one item without identifiers ("build the data set of a full write"): goes through
    \* the same merge rules as a partial update, i.e. is copied to every item
    \cup (IF persist THEN {} ELSE {U(d, "none", NoSel, "none", NoSel, {}, remote, persist) : d \in One({NoKey})})
    \* partial update with identifiers
    \cup {U(d, "empty", NoSel, "none", NoSel, {}, remote, persist) : d \in {<< >>} \cup One(AllKeys) \cup (IF Rich THEN Two(AllKeys) ELSE {})}
    \* partial update without identifiers: copied to every item
    \cup {U(d, "empty", NoSel, "none", NoSel, {}, remote, persist) : d \in One({NoKey})}
    \* selector confines the update to the matching item (data item without identifier or with the selected one)
    \cup {U(<<Item(kk, d.v, d.w, d.chg)>>, "sel", Sel(k), "none", NoSel, {}, remote, persist) :
              k \in SelKeys, kk \in {NoKey}, d \in DataVariants}
    \cup {U(<<Item(k, d.v, d.w, d.chg)>>, "sel", Sel(k), "none", NoSel, {}, remote, persist) : k \in AllKeys, d \in DataVariants}
    \* delete filters
    \cup {U(<< >>, "none", NoSel, "sel", Sel(k), {}, remote, persist) : k \in SelKeys}
    \cup {U(<< >>, "none", NoSel, "elem", NoSel, e, remote, persist) : e \in Elems}
    \cup {U(<< >>, "none", NoSel, "selelem", Sel(k), e, remote, persist) : k \in SelKeys, e \in Elems}
    \* delete combined with partial
    \cup {U(d, "empty", NoSel, "sel", Sel(k), {}, remote, persist) : k \in StoredKeys, d \in One(AllKeys)}
    \cup (IF Rich THEN {U(d, "empty", NoSel, "elem", NoSel, e, remote, persist) : e \in Elems, d \in One(AllKeys \cup {NoKey})} ELSE {})
    \* (a delete selector combined with a selector update of another item)
    \cup (IF Rich THEN UNION {{U(<<Item(NoKey, d.v, d.w, d.chg)>>, "sel", Sel(k), "sel", Sel(k2), {}, remote, persist) :
                                  k2 \in StoredKeys \ {k}, d \in DataVariants} : k \in StoredKeys} ELSE {})
    \* (a delete filter with elements only, combined with a selector update: the selector path returns before the merge)
    \cup (IF Rich THEN {U(<<Item(NoKey, d.v, d.w, d.chg)>>, "sel", Sel(k), "elem", NoSel, e, remote, persist) :
                           k \in StoredKeys, e \in {{"v"}, {"w"}}, d \in DataVariants} ELSE {})
    \cup (IF Rich THEN {U(<<Item(NoKey, d.v, d.w, d.chg)>>, "sel", Sel(k), "selelem", Sel(k2), e, remote, persist) :
                           k \in StoredKeys, k2 \in StoredKeys, e \in {{"v"}}, d \in DataVariants} ELSE {})

Updates == (IF "local" \in Origins THEN Shapes(FALSE, TRUE) \cup Shapes(FALSE, FALSE) ELSE {})
           \cup (IF "remote" \in Origins THEN Shapes(TRUE, TRUE) ELSE {})

VARIABLES store, hist
vars == <<store, hist>>

Init == store \in (IF Mode = "cases" THEN StoredLists ELSE {<< >>}) /\ hist = << >>
\* the model follows the ideal outcome (the code is followed by the trace monitor)
IdealOf(L, u) == CHOOSE r \in Apply(L, u) : r.dev = "ideal"
Next == /\ Len(hist) < MaxLen
        /\ \E u \in Updates :
              /\ store' = IF u.persist THEN IdealOf(store, u).list ELSE store
              /\ hist' = Append(hist, u)
Spec == Init /\ [][Next]_vars
View == store

\* printed once per explored transition: the starting list of the behaviour and the updates
Emit == PrintT(<<"B", ToJson([init |-> IF Mode = "cases" THEN store ELSE << >>, ups |-> hist'])>>)

\* properties: on every transition (store, u)
LastU == hist'[Len(hist')]
StepAction ==
    /\ WellFormed(store)
    /\ ~LastU.remote => /\ P_Idempotent(store, LastU) /\ P_UniqueSorted(store, LastU) /\ P_FullReplaces(store, LastU)
                        /\ P_KeepsUnmentioned(store, LastU)
    /\ LastU.remote => P_WriteProtect(store, LastU)
StepProperty == [][StepAction]_vars
Inv == WellFormed(store)
=============================================================================
