------------------------------ MODULE ListTrace ------------------------------
(* Trace validation of the real restricted-exchange engine against ListData.  Every line is self contained:     *)
(*   pre   the stored list before (read through DataCopy),  u  the update,  ok / store / ret  what the code did, *)
(*   snapchg  steps of earlier snapshots (objects handed out by DataCopy / returned by updates) that changed.    *)
EXTENDS ListData, Json, IOUtils

CONSTANTS Checked       \* subset of {"c02", "c04", "c11"}: which lines / aspects are compared

TraceFile == IF "VERIF_TRACE" \in DOMAIN IOEnv THEN IOEnv.VERIF_TRACE ELSE "trace.ndjson"
Trace == ndJsonDeserialize(TraceFile)

VARIABLES l, bad, devs
tvars == <<l, bad, devs>>
Init == l = 1 /\ bad = << >> /\ devs = << >>

SetOfSeq(s) == {s[i] : i \in DOMAIN s}
NormItem(x) == Item(x.k, x.v, x.w, x.chg)
NormList(s) == [i \in DOMAIN s |-> NormItem(s[i])]
NormU(u) == [data |-> NormList(u.data), partial |-> u.partial, psel |-> [k |-> u.psel.k], delete |-> u.delete,
             dsel |-> [k |-> u.dsel.k], delem |-> SetOfSeq(u.delem), remote |-> u.remote, persist |-> u.persist]

Bump(d, name, line) == IF name \in DOMAIN d THEN [d EXCEPT ![name].n = @ + 1]
                       ELSE [x \in DOMAIN d \cup {name} |-> IF x = name THEN [n |-> 1, first |-> line] ELSE d[x]]

\* in-place paths of the engine: selector update, identifier-less update, delete of elements
InPlaceShape(u) == u.partial = "sel" \/ u.delete \in {"elem", "selelem"} \/ (Len(u.data) > 0 /\ ~HasId(u.data[1]) /\ ~(IsFull(u) /\ u.persist))

\* verdict for one line: <<kind, name>> with kind "ok" | "dev" | "bad"
Verdict(e) ==
    LET L == NormList(e.pre)  u == NormU(e.u)  S == NormList(e.store)
        outs == Apply(L, u)
        effStore(r) == IF u.persist THEN r.list ELSE L           \* a non-persisting update leaves the store as it was
        \* (what a non-persisting update does to the store is C11's question; C02 compares the data it returns)
        hit == {r \in outs : r.ok = e.ok /\ (effStore(r) = S \/ (~u.persist /\ ~u.remote))}
        relevant == IF u.remote THEN "c04" \in Checked ELSE "c02" \in Checked
        \* C11: snapshots frozen; non-persisting and failed updates leave the stored data as it was
        frozen == e.snapchg = << >>
        keep == (~u.persist \/ ~e.ok) => S = L
        c11bad == "c11" \in Checked /\ (~frozen \/ ~keep)
        c11dev == IF ~frozen /\ InPlaceShape(u) /\ "InPlaceUpdateAliasesSnapshots" \in KnownDeviations
                     /\ (keep \/ "InPlaceUpdateAliasesSnapshots" \in KnownDeviations)
                  THEN "InPlaceUpdateAliasesSnapshots" ELSE ""
    IN  IF e.panic # "" THEN <<"bad", "panic">>
        ELSE IF relevant /\ hit = {} THEN <<"bad", "outcome">>
        ELSE IF c11bad /\ c11dev = "" THEN <<"bad", IF ~frozen THEN "snapshot changed" ELSE "store changed by a non-persisting or failed update">>
        ELSE IF relevant /\ ~\E r \in hit : r.dev = "ideal" THEN <<"dev", (CHOOSE r \in hit : TRUE).dev>>
        ELSE IF c11bad THEN <<"dev", c11dev>>
        \* the data returned by a successful local update is the resulting list
        ELSE IF "c02" \in Checked /\ ~u.remote /\ e.ok /\ e.hasret /\ NormList(e.ret) # (CHOOSE r \in hit : TRUE).list /\ hit # {} /\ relevant
             THEN <<"bad", "returned data">>
        ELSE <<"ok", "">>

Step == /\ l <= Len(Trace)
        /\ l' = l + 1
        /\ LET v == Verdict(Trace[l]) IN
           /\ bad' = IF v[1] = "bad" THEN Append(bad, [line |-> l, why |-> v[2]]) ELSE bad
           /\ devs' = IF v[1] = "dev" THEN Bump(devs, v[2], l) ELSE devs
TraceSpec == Init /\ [][Step]_tvars
Final == l > Len(Trace) =>
            /\ PrintT(<<"BAD", ToJson(bad)>>)
            /\ PrintT(<<"DEVS", ToJson(devs)>>)
            /\ PrintT(<<"LINES", Len(Trace)>>)
Done == TLCGet("stats").diameter - 1 = Len(Trace)
=============================================================================
