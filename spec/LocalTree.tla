------------------------------ MODULE LocalTree ------------------------------
(***************************************************************************)
(* The local device tree (C07): entities are created, given features and   *)
(* functions, added to and removed from the device; peers read the         *)
(* detailed discovery data; peers subscribed to node management get one    *)
(* partial notification per added / removed entity.                        *)
(* LocalTreeMC: exhaustive check + generator; LocalTreeTrace: monitor.     *)
(***************************************************************************)
EXTENDS Naturals, Integers, Sequences, FiniteSets, TLC, Json, IOUtils

CONSTANTS MaxLen, MaxFeat, Acts

Ents == {"3", "3.1", "4"}                   \* dynamic entities (the static part of the device stays as it is)
FTypes == {"Measurement", "ElectricalConnection"}
Roles == {"client", "server"}
FnOf == [Measurement |-> {"meas", "measdesc"}, ElectricalConnection |-> {"ecdesc"}]
Subscribers == {"p1", "q1", "q2"}           \* p1 is subscribed to node management, p2 is not; q1 and q2 subscribed right after
                                            \* their connection was set up and never sent a discovery reply (the stack does not
                                            \* know their device address): subscribers like p1
Peers == {"p1", "p2", "q1", "q2"}
Readers == {"p1", "p2"}

InitT == [ ents  |-> [e \in Ents |-> "none"],       \* none | created | added | removed
           feats |-> {},                           \* [e, no, type, role, fns]   fns: set of [fn, r, w]
           next  |-> [e \in Ents |-> 1] ]          \* next feature number of the entity (1-based off entity 0)

\* desc: version of the description; seen: ghost - the feature's information has been handed out (read, or announced with
\* its entity) - no outcome depends on it, it keeps histories apart in which a change follows an announcement
Feat(e, no, t, r, fns) == [e |-> e, no |-> no, type |-> t, role |-> r, fns |-> fns, desc |-> 1, seen |-> FALSE]
Strip(f) == [f EXCEPT !.seen = FALSE]
MarkSeen(st, es) == [st EXCEPT !.feats = {IF f.e \in es THEN [f EXCEPT !.seen = TRUE] ELSE f : f \in @}]
FeatsOf(st, e) == {f \in st.feats : f.e = e}
Announced(st) == {f \in st.feats : st.ents[f.e] = "added"}
AddedEnts(st) == {e \in Ents : st.ents[e] = "added"}

\* outcome: [st, ret, reply (tree returned to the reader), notes (per peer: set of [chg, e, feats])]
Out(st, ret, reply, notes) == [st |-> st, ret |-> ret, reply |-> reply, notes |-> notes]
NoNotes == [p \in Peers |-> {}]
NoReply == [ents |-> {}, feats |-> {}, none |-> TRUE]
ToSubs(n) == [p \in Peers |-> IF p \in Subscribers THEN {n} ELSE {}]

NewEntOut(st, a) == IF st.ents[a.e] = "none" THEN Out([st EXCEPT !.ents[a.e] = "created"], "ok", NoReply, NoNotes)
                    ELSE Out(st, "ok", NoReply, NoNotes)
\* GetOrAddFeature: the feature of that type and role, created with the next number if there is none
AddFeatOut(st, a) ==
    IF st.ents[a.e] \notin {"created", "added"} THEN Out(st, "noentity", NoReply, NoNotes)
    ELSE IF \E f \in FeatsOf(st, a.e) : f.type = a.t /\ f.role = a.r
    THEN Out(st, ToString((CHOOSE f \in FeatsOf(st, a.e) : f.type = a.t /\ f.role = a.r).no), NoReply, NoNotes)
    ELSE Out([st EXCEPT !.feats = @ \cup {Feat(a.e, st.next[a.e], a.t, a.r, {})}, !.next[a.e] = @ + 1],
             ToString(st.next[a.e]), NoReply, NoNotes)
\* AddFunctionType: only on server features, only once per function
AddFnOut(st, a) ==
    IF \E f \in FeatsOf(st, a.e) : f.no = a.no /\ f.role = "server" /\ ~\E x \in f.fns : x.fn = a.fn
    THEN LET f == CHOOSE f \in FeatsOf(st, a.e) : f.no = a.no
         IN Out([st EXCEPT !.feats = (@ \ {f}) \cup {[f EXCEPT !.fns = @ \cup {[fn |-> a.fn, r |-> a.r, w |-> a.w]}]}], "ok", NoReply, NoNotes)
    ELSE Out(st, "ok", NoReply, NoNotes)
\* SetDescription on a feature (announced or not): the next reply / notification shows it
SetDescOut(st, a) ==
    IF \E f \in FeatsOf(st, a.e) : f.no = a.no
    THEN LET f == CHOOSE f \in FeatsOf(st, a.e) : f.no = a.no
         IN Out([st EXCEPT !.feats = (@ \ {f}) \cup {[f EXCEPT !.desc = 2]}], "ok", NoReply, NoNotes)
    ELSE Out(st, "ok", NoReply, NoNotes)
AddEntOut(st, a) ==
    IF st.ents[a.e] # "created" THEN Out(st, "skip", NoReply, NoNotes)
    ELSE Out(MarkSeen([st EXCEPT !.ents[a.e] = "added"], {a.e}), "ok", NoReply,
             ToSubs([chg |-> "added", e |-> a.e, feats |-> {Strip(f) : f \in FeatsOf(st, a.e)}]))
RemEntOut(st, a) ==
    IF st.ents[a.e] # "added" THEN Out(st, "skip", NoReply, NoNotes)
    ELSE Out([st EXCEPT !.ents[a.e] = "removed"], "ok", NoReply, ToSubs([chg |-> "removed", e |-> a.e, feats |-> {}]))
ReadOut(st, a) == Out(MarkSeen(st, AddedEnts(st)), "ok", [ents |-> AddedEnts(st), feats |-> {Strip(f) : f \in Announced(st)}, none |-> FALSE], NoNotes)

Outcome(st, a) == CASE a.a = "newent"  -> NewEntOut(st, a)
                    [] a.a = "addfeat" -> AddFeatOut(st, a)
                    [] a.a = "addfn"   -> AddFnOut(st, a)
                    [] a.a = "setdesc" -> SetDescOut(st, a)
                    [] a.a = "addent"  -> AddEntOut(st, a)
                    [] a.a = "rement"  -> RemEntOut(st, a)
                    [] a.a = "read"    -> ReadOut(st, a)

On(k, set) == IF k \in Acts THEN set ELSE {}
Inputs(st) ==
    On("newent", {[a |-> "newent", e |-> e] : e \in {x \in Ents : st.ents[x] = "none"}})
    \cup On("addfeat", {[a |-> "addfeat", e |-> e, t |-> t, r |-> r] :
                          e \in {x \in Ents : st.ents[x] \in {"created", "added"} /\ st.next[x] <= MaxFeat}, t \in FTypes, r \in Roles})
    \cup On("addfn", UNION {{[a |-> "addfn", e |-> f.e, no |-> f.no, fn |-> fn, r |-> rw[1], w |-> rw[2]] :
                               fn \in FnOf[f.type], rw \in {<<TRUE, FALSE>>, <<TRUE, TRUE>>, <<FALSE, FALSE>>, <<FALSE, TRUE>>}} :
                            f \in {x \in st.feats : st.ents[x.e] \in {"created", "added"}}})
    \cup On("setdesc", {[a |-> "setdesc", e |-> f.e, no |-> f.no] : f \in {x \in st.feats : st.ents[x.e] \in {"created", "added"} /\ x.desc = 1}})
    \cup On("addent", {[a |-> "addent", e |-> e] : e \in {x \in Ents : st.ents[x] = "created"}})
    \cup On("rement", {[a |-> "rement", e |-> e] : e \in {x \in Ents : st.ents[x] = "added"}})
    \cup On("read", {[a |-> "read", p |-> p] : p \in Readers})

=============================================================================
