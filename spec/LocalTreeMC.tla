----------------------------- MODULE LocalTreeMC -----------------------------
EXTENDS LocalTree
---------------------------------------------------------------------------
VARIABLES st, hist, last
vars == <<st, hist, last>>
Init == st = InitT /\ hist = << >> /\ last = [a |-> [a |-> "none"], o |-> Out(InitT, "", NoReply, NoNotes), pre |-> InitT]
Next == /\ Len(hist) < MaxLen
        /\ \E a \in Inputs(st) : LET o == Outcome(st, a) IN
              st' = o.st /\ hist' = Append(hist, a) /\ last' = [a |-> a, o |-> o, pre |-> st]
Spec == Init /\ [][Next]_vars
View == st
Emit == PrintT(<<"B", ToJson(hist')>>)

\* feature numbers are unique within an entity and never handed out twice; one feature per type and role
Inv == /\ \A f, g \in st.feats : (f.e = g.e /\ f.no = g.no) => f = g
       /\ \A f, g \in st.feats : (f.e = g.e /\ f.type = g.type /\ f.role = g.role) => f = g
       /\ \A f \in st.feats : f.no < st.next[f.e]
StepAction ==
    LET a == last'.a  o == last'.o  p == last'.pre IN
    a.a # "none" =>
        \* the reply lists exactly the current tree; only subscribers are notified, once, about exactly that entity
        /\ (a.a = "read" => o.reply.ents = AddedEnts(p) /\ o.reply.feats = {Strip(f) : f \in Announced(p)})
        /\ \A q \in Peers \ Subscribers : o.notes[q] = {}
        /\ \A q \in Subscribers : Cardinality(o.notes[q]) <= 1 /\ \A n \in o.notes[q] : n.e = a.e
        /\ (a.a \in {"addent", "rement"} /\ o.ret = "ok") => \A q \in Subscribers : Cardinality(o.notes[q]) = 1
        \* numbers are never reused
        /\ \A f \in p.feats : f \in o.st.feats \/ \E g \in o.st.feats : g.e = f.e /\ g.no = f.no /\ g.type = f.type /\ g.role = f.role
StepProperty == [][StepAction]_vars

=============================================================================
