---------------------------- MODULE LocalTreeTrace ----------------------------
EXTENDS LocalTree
---------------------------------------------------------------------------
(* Trace monitor: lines [a, ret, reply, notes, tree (projection through the API), staticok, resolves, panic] *)
TraceFile == IF "VERIF_TRACE" \in DOMAIN IOEnv THEN IOEnv.VERIF_TRACE ELSE "trace.ndjson"
Trace == ndJsonDeserialize(TraceFile)
VARIABLES l, ts, bad
tvars == <<l, ts, bad>>
SetOfSeq(s) == {s[i] : i \in DOMAIN s}
NormFeat(f) == [Feat(f.e, f.no, f.type, f.role, {[fn |-> x.fn, r |-> x.r, w |-> x.w] : x \in SetOfSeq(f.fns)}) EXCEPT !.desc = f.desc]
NormFeats(s) == {NormFeat(s[i]) : i \in DOMAIN s}
NoDup(seq) == \A i, j \in DOMAIN seq : seq[i] = seq[j] => i = j
ObsReply(e) == IF e.reply.none THEN NoReply ELSE [ents |-> SetOfSeq(e.reply.ents), feats |-> NormFeats(e.reply.feats), none |-> FALSE]
ObsNotes(e) == [p \in Peers |-> {[chg |-> n.chg, e |-> n.e, feats |-> NormFeats(n.feats)] : n \in SetOfSeq(e.notes[p])}]
\* the tree as the API reports it (entities registered at the device with their features)
ObsTree(e) == [ents |-> SetOfSeq(e.tree.ents), feats |-> NormFeats(e.tree.feats)]

TInit == l = 1 /\ ts = InitT /\ bad = << >>
TStep ==
    /\ l <= Len(Trace)
    /\ l' = l + 1
    /\ LET e == Trace[l] IN
       IF e.a.a = "reset" THEN ts' = InitT /\ bad' = bad
       ELSE LET o == Outcome(ts, e.a)
                why == (IF e.panic = "" THEN {} ELSE {"panic"})
                       \cup (IF e.ret = o.ret THEN {} ELSE {"return value"})
                       \cup (IF ObsReply(e) = o.reply THEN {} ELSE {"discovery reply"})
                       \cup (IF ObsNotes(e) = o.notes /\ \A p \in Peers : NoDup(e.notes[p]) THEN {} ELSE {"notifications"})
                       \cup (IF ObsTree(e) = [ents |-> AddedEnts(o.st), feats |-> {Strip(f) : f \in Announced(o.st)}] THEN {} ELSE {"tree"})
                       \cup (IF e.staticok THEN {} ELSE {"static part of the tree changed"})
                       \cup (IF e.resolves THEN {} ELSE {"announced address does not resolve to its feature"})
            IN /\ ts' = o.st                     \* the model state is the input history's (the tree is read back every step)
               /\ bad' = IF why = {} THEN bad ELSE Append(bad, [line |-> l, a |-> e.a, why |-> why])
TraceSpec == TInit /\ [][TStep]_tvars
Final == l > Len(Trace) => PrintT(<<"BAD", ToJson(bad)>>) /\ PrintT(<<"LINES", Len(Trace)>>)
Done == TLCGet("stats").diameter - 1 = Len(Trace)
=============================================================================
