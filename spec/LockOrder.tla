------------------------------ MODULE LockOrder ------------------------------
(***************************************************************************)
(* Completion half of C17: the operations of the stack that hold one of    *)
(* its mutexes while they call into another component, as sequences of     *)
(* acquire / release steps (read off the code at the pinned commit plus    *)
(* the fix: commits).  TLC's deadlock check over all interleavings of any  *)
(* two (thorough: three) operations shows that no schedule lets them block *)
(* each other forever; the same operation pairs are probed on the real     *)
(* code (one operation parked at a hook point while it holds its lock, the *)
(* other started, then the first released; both must complete) and run     *)
(* free in the stress part.                                                *)
(* Locks: DL DeviceLocal.mux, EL EntityLocal.mux, SM / BM subscription /   *)
(* binding manager, EV events.mu, EVH events.muHandle, FL FeatureLocal.mux,*)
(* FD FunctionData.mux, CB muxResponseCB, WR muxWriteReceived, DR / ER /   *)
(* FR remote device / entity / feature, SND sender request mutex, HBM /    *)
(* HBS / HSS heartbeat mux / stopMux / startStopMux, UC use-case mutex.    *)
(***************************************************************************)
EXTENDS Naturals, Sequences, FiniteSets, TLC, Json

CONSTANTS NProcs, OpsUsed

A(l) == <<"acq", l>>
R(l) == <<"rel", l>>
\* l held around the steps s
With(l, s) == <<A(l)>> \o s \o <<R(l)>>
Brief(l) == <<A(l), R(l)>>

\* Publish: snapshot under EV, then the core handler (the local device) under EVH; the handler looks the device up
\* and - for a device-added event - subscribes to node management and requests use-case data
Publish == Brief("EV") \o With("EVH", Brief("DL"))
PublishDeviceAdded == Brief("EV") \o With("EVH", Brief("DL") \o Brief("DL") \o With("SND", <<>>) \o Brief("FL") \o With("SND", <<>>))
LocalLookup == Brief("DL") \o Brief("EL")
RemoteLookup == Brief("DR") \o Brief("ER")
Update == With("FL", Brief("FD"))          \* FeatureLocal.updateData holds its mutex around the function data update
Fanout == Brief("FD") \o Brief("SM")       \* build the notification, list the subscribers, send

Op == [
  bindreq    |-> LocalLookup \o Brief("BM") \o RemoteLookup \o With("BM", Publish),
  subreq     |-> LocalLookup \o RemoteLookup \o With("SM", Publish),
  unbind     |-> RemoteLookup \o LocalLookup \o Brief("BM") \o With("BM", Publish),
  unsub      |-> RemoteLookup \o LocalLookup \o With("SM", Publish),
  disconnect |-> Brief("DL") \o Brief("DR") \o With("SM", LocalLookup \o Brief("ER") \o Publish)
                 \o Brief("DR") \o With("BM", LocalLookup \o Brief("ER") \o Publish) \o Brief("EL") \o Brief("CB") \o Brief("FL") \o Publish,
  entrem     |-> Brief("DR") \o Publish \o With("SM", LocalLookup \o Brief("ER") \o Publish) \o With("BM", LocalLookup \o Brief("ER") \o Publish)
                 \o Brief("EL") \o Brief("FL"),
  discover   |-> Brief("DR") \o Brief("ER") \o PublishDeviceAdded \o Publish,
  addentity  |-> Brief("DL") \o Brief("EL") \o Brief("SM"),
  rementity  |-> With("UC", With("FL", Brief("FD")) \o Update \o Fanout) \o With("HSS", Brief("HBS")) \o Brief("DL") \o Brief("SM"),
  setdata    |-> Update \o Fanout,
  write      |-> LocalLookup \o RemoteLookup \o Brief("BM") \o Update \o Fanout \o Publish,
  writeappr  |-> LocalLookup \o RemoteLookup \o Brief("BM") \o Brief("CB") \o Brief("CB"),
  verdict    |-> Brief("CB") \o With("WR", With("CB", Update \o Fanout \o Publish)),
  timeout    |-> Brief("CB"),
  discread   |-> LocalLookup \o RemoteLookup \o Brief("DL") \o Brief("EL"),
  usecase    |-> With("UC", With("FL", Brief("FD")) \o Update \o Fanout),
  lsub       |-> Brief("DL") \o With("SND", <<>>) \o Brief("FL"),
  hbtick     |-> With("HBM", Update \o Fanout),
  hbstart    |-> With("HSS", Brief("HBS") \o Brief("HBS")),
  reply      |-> LocalLookup \o RemoteLookup \o With("FR", Brief("FD")) \o Publish \o Brief("CB")
]

VARIABLES op, pc, owner
vars == <<op, pc, owner>>
Procs == 1..NProcs
Init == /\ op \in [Procs -> OpsUsed] /\ pc = [p \in Procs |-> 1] /\ owner = << >>
Done(p) == pc[p] > Len(Op[op[p]])
Step(p) == /\ ~Done(p)
           /\ LET s == Op[op[p]][pc[p]] IN
              IF s[1] = "acq"
              THEN /\ s[2] \notin DOMAIN owner            \* a mutex: blocks while held (also by the same process)
                   /\ owner' = (s[2] :> p) @@ owner
              ELSE owner' = [l \in DOMAIN owner \ {s[2]} |-> owner[l]]
           /\ pc' = [pc EXCEPT ![p] = @ + 1]
           /\ UNCHANGED op
Finished == /\ \A p \in Procs : Done(p)
            /\ UNCHANGED vars
Next == (\E p \in Procs : Step(p)) \/ Finished
Spec == Init /\ [][Next]_vars
\* TLC's deadlock check (no CHECK_DEADLOCK FALSE) is the property: from every reachable state some operation can move
\* or all have completed.  Sanity: no operation releases what it does not hold, nothing stays locked at the end.
WellFormed == /\ \A p \in Procs : ~Done(p) /\ Op[op[p]][pc[p]][1] = "rel" => (Op[op[p]][pc[p]][2] \in DOMAIN owner /\ owner[Op[op[p]][pc[p]][2]] = p)
              /\ (\A p \in Procs : Done(p)) => owner = << >>
AllOps == DOMAIN Op
EmitPairs == PrintT(<<"OPS", ToJson(AllOps)>>)
=============================================================================
