------------------------------ MODULE LockTrace ------------------------------
(* C17, completion half: every probe (an operation parked while it holds one of the stack's locks, another operation       *)
(* started, the first released) and every free-running round must complete - no call blocks forever, nothing panics, and  *)
(* afterwards the registries, message handling and the teardown still work.  LockOrder.tla shows by TLC's deadlock check  *)
(* that the lock order of the design admits no deadlock for these operation pairs; this monitor requires it of the code.  *)
EXTENDS Naturals, Sequences, FiniteSets, TLC, Json, IOUtils
TraceFile == IF "VERIF_TRACE" \in DOMAIN IOEnv THEN IOEnv.VERIF_TRACE ELSE "trace.ndjson"
Trace == ndJsonDeserialize(TraceFile)
Defects(e) == (IF e.completed THEN {} ELSE {"a call blocks forever"})
              \cup (IF e.completed /\ ~e.after THEN {"the stack is wedged afterwards (a lock was left held)"} ELSE {})
              \cup (IF e.panic = "" THEN {} ELSE {"panic"})
VARIABLE l
Init == l = 1
Next == l <= Len(Trace) /\ l' = l + 1
Spec == Init /\ [][Next]_l
Bad == {i \in 1..Len(Trace) : Defects(Trace[i]) # {}}
Final == l > Len(Trace) =>
           /\ PrintT(<<"BAD", ToJson([i \in Bad |-> [line |-> i, defects |-> Defects(Trace[i])]])>>)
           /\ PrintT(<<"STAT", ToJson([lines |-> Len(Trace), parked |-> Cardinality({i \in 1..Len(Trace) : Trace[i].parked}),
                                       blocked |-> Cardinality({i \in 1..Len(Trace) : Trace[i].blocked}),
                                       stress |-> Cardinality({i \in 1..Len(Trace) : Trace[i].kind = "stress"})])>>)
=============================================================================
