------------------------------ MODULE PairTrace ------------------------------
(* Linearizability of operation pairs (C10, C08, C09, C17): one operation (the holder) is parked at a hook point in the    *)
(* middle of its critical section, the other one is run, the holder is released.  Whatever the interleaving, the state    *)
(* the API reports afterwards must be the state after one of the two serial orders of the two operations, as defined by   *)
(* SpineCore (e.g. a subscription granted while another peer is being torn down is neither lost nor is a removed one       *)
(* resurrected).  A line: pre (projected state), a, b (SpineCore inputs), post (projected state).                         *)
EXTENDS SpineCore, Json, IOUtils
TraceFile == IF "VERIF_TRACE" \in DOMAIN IOEnv THEN IOEnv.VERIF_TRACE ELSE "trace.ndjson"
Trace == ndJsonDeserialize(TraceFile)
SetOf(seq) == {seq[i] : i \in DOMAIN seq}
Obs(x) == [ conn  |-> SetOf(x.conn), addr |-> {p \in Peers : x.resa[p]},
            known |-> [p \in Peers |-> SetOf(x.known[p])],
            feats |-> [p \in Peers |-> {y \in SetOf(x.feats[p]) : y.f \in RemoteNames}],
            subs  |-> SetOf(x.subs), binds |-> SetOf(x.binds), csub |-> SetOf(x.csub), cbind |-> SetOf(x.cbind),
            data  |-> [c \in Cells |-> x.data[c]], rdata |-> [p \in Peers |-> x.rdata[p]],
            ucs |-> SetOf(x.ucs), nid |-> 0, unans |-> [p \in Peers |-> 0], cbs |-> {}, rcbs |-> {}, nsub |-> 0, nbind |-> 0, nfire |-> 0, rucs |-> [p \in Peers |-> 0], edesc |-> [p \in Peers |-> [en \in REnts |-> 0]] ]
NormAct(a) == IF a.a = "discover" THEN [a EXCEPT !.ents = SetOf(@)] ELSE a
After(st, a) == {o.st : o \in Outcomes(st, NormAct(a))}
Serial(st, a, b) == UNION {After(s1, b) : s1 \in After(st, a)}
Proj(s) == <<s.conn, s.known, s.subs, s.binds, s.csub, s.cbind, s.data>>
Defects(e) ==
    LET pre == Obs(e.pre)  post == Obs(e.post)
        allowed == {Proj(s) : s \in Serial(pre, e.a, e.b) \cup Serial(pre, e.b, e.a)}
    IN (IF e.completed THEN {} ELSE {"a call blocks forever"})
       \cup (IF e.panic = "" THEN {} ELSE {"panic"})
       \cup (IF ~e.completed \/ Proj(post) \in allowed THEN {} ELSE {"final state is not that of either serial order of the two operations"})
VARIABLE l
Init == l = 1
Next == l <= Len(Trace) /\ l' = l + 1
Spec == Init /\ [][Next]_l
Bad == {i \in 1..Len(Trace) : Defects(Trace[i]) # {}}
Final == l > Len(Trace) =>
           /\ PrintT(<<"BAD", ToJson([i \in Bad |-> [line |-> i, defects |-> Defects(Trace[i])]])>>)
           /\ PrintT(<<"STAT", ToJson([lines |-> Len(Trace), parked |-> Cardinality({i \in 1..Len(Trace) : Trace[i].parked}),
                                       blocked |-> Cardinality({i \in 1..Len(Trace) : Trace[i].blocked})])>>)
=============================================================================
