------------------------------ MODULE RaceTrace ------------------------------
(* Validation of the outcomes of forced interleavings (one line per schedule executed on real goroutines)      *)
(* against what the ATOMIC specification allows: whatever the interleaving, the final state must be one that    *)
(* some serial order of the calls produces.                                                                     *)
EXTENDS Naturals, Sequences, FiniteSets, TLC, Json, IOUtils

TraceFile == IF "VERIF_TRACE" \in DOMAIN IOEnv THEN IOEnv.VERIF_TRACE ELSE "trace.ndjson"
Trace == ndJsonDeserialize(TraceFile)
SetOfSeq(s) == {s[i] : i \in DOMAIN s}

Defects(e) ==
    LET procs == SetOfSeq(e.sched) IN
    (IF e.panic = "" THEN {} ELSE {"panic or hang"})
    \cup (CASE e.mech = "bind" ->
                 \* exactly one of the concurrent requests for one server feature is granted
                 (IF e.count = 1 /\ Len(e.effects) = 1 THEN {} ELSE {"server feature does not have exactly one binding"})
            [] e.mech = "feature" ->
                 (IF e.count = 1 /\ e.same THEN {} ELSE {"more than one feature for one type and role"})
                 \cup (IF e.distinct THEN {} ELSE {"feature number handed out twice"})
            [] e.mech = "entity" ->
                 \* the device's entity list is a read-modify-write as well: no addition or removal is lost, each is
                 \* announced exactly once, and a discovery read shows exactly the resulting tree
                 (IF e.count = Cardinality(procs) THEN {} ELSE {"entity addition or removal lost"})
                 \cup (IF e.same THEN {} ELSE {"not exactly one notification per added / removed entity"})
                 \cup (IF e.distinct THEN {} ELSE {"discovery reply differs from the tree, or an announced address does not resolve"})
            [] e.mech = "usecase" ->
                 (IF e.count = Cardinality(procs) THEN {} ELSE {"use case update lost"})
            [] OTHER -> {"unknown mechanism"})

VARIABLE l
Init == l = 1
Next == l <= Len(Trace) /\ l' = l + 1
Spec == Init /\ [][Next]_l
Bad == {i \in 1..Len(Trace) : Defects(Trace[i]) # {}}
Final == l > Len(Trace) =>
           /\ PrintT(<<"RACEBAD", ToJson([i \in Bad |-> [sched |-> Trace[i].sched, defects |-> Defects(Trace[i])]])>>)
           /\ PrintT(<<"RACESTAT", ToJson([lines |-> Len(Trace),
                                           realised |-> Cardinality({i \in 1..Len(Trace) : Trace[i].realised}),
                                           unsaferealised |-> Cardinality({i \in 1..Len(Trace) : Trace[i].realised /\ Trace[i].unsafe})])>>)
=============================================================================
