--------------------------- MODULE RegistryProof ---------------------------
(***************************************************************************)
(* The binding registry of SpineCore, reduced to what C09's invariant      *)
(* speaks about, with a machine-checked proof (TLAPS) that the invariant   *)
(* holds for EVERY number of peers, features and steps - the bounded TLC   *)
(* runs over SpineCore cannot say that.                                    *)
(*                                                                         *)
(*   Grant(e)    a binding request is granted only if the addressed server *)
(*               feature has no binding; the entry gets a fresh id         *)
(*   Remove(R)   a binding delete, the removal of a remote entity, a       *)
(*               disconnect: some set of entries disappears                *)
(*                                                                         *)
(* Binding to SpineCore: CoreMC's action property RegistryRefines (checked *)
(* by TLC on every explored transition) says that every step of SpineCore  *)
(* changes st.binds by Grant or Remove, i.e. SpineCore's registry          *)
(* component refines this module; SpineCore is bound to the code by the    *)
(* trace validation.                                                       *)
(***************************************************************************)
EXTENDS Naturals, TLAPS

CONSTANTS Peer, Client, Server

VARIABLES binds,     \* set of entries [id, p, c, s]
          nextId     \* the next id to hand out

vars == <<binds, nextId>>

Entry == [id : Nat, p : Peer, c : Client, s : Server]

TypeOK == binds \subseteq Entry /\ nextId \in Nat
AtMostOneBindingPerServer == \A a, b \in binds : a.s = b.s => a = b
IdsDistinct == \A a, b \in binds : a.id = b.id => a = b
IdsBelowNext == \A a \in binds : a.id < nextId
Inv == TypeOK /\ AtMostOneBindingPerServer /\ IdsDistinct /\ IdsBelowNext

Init == binds = {} /\ nextId = 1

Grant(p, c, s) == /\ ~\E b \in binds : b.s = s
                  /\ binds' = binds \cup {[id |-> nextId, p |-> p, c |-> c, s |-> s]}
                  /\ nextId' = nextId + 1
Remove(R) == /\ R \subseteq binds
             /\ binds' = binds \ R
             /\ UNCHANGED nextId
Next == \/ \E p \in Peer, c \in Client, s \in Server : Grant(p, c, s)
        \/ \E R \in SUBSET binds : Remove(R)
Spec == Init /\ [][Next]_vars

THEOREM Safety == Spec => []Inv
<1>1. Init => Inv
  BY DEF Init, Inv, TypeOK, AtMostOneBindingPerServer, IdsDistinct, IdsBelowNext
<1>2. Inv /\ [Next]_vars => Inv'
  <2> SUFFICES ASSUME Inv, [Next]_vars PROVE Inv'
    OBVIOUS
  <2>1. ASSUME NEW p \in Peer, NEW c \in Client, NEW s \in Server, Grant(p, c, s) PROVE Inv'
    <3>1. [id |-> nextId, p |-> p, c |-> c, s |-> s] \in Entry
      BY DEF Inv, TypeOK, Entry
    <3>2. TypeOK'
      BY <2>1, <3>1 DEF Grant, Inv, TypeOK
    <3>3. AtMostOneBindingPerServer'
      BY <2>1 DEF Grant, Inv, AtMostOneBindingPerServer
    <3>4. IdsDistinct'
      BY <2>1 DEF Grant, Inv, TypeOK, Entry, IdsDistinct, IdsBelowNext
    <3>5. IdsBelowNext'
      BY <2>1 DEF Grant, Inv, TypeOK, Entry, IdsBelowNext
    <3> QED BY <3>2, <3>3, <3>4, <3>5 DEF Inv
  <2>2. ASSUME NEW R \in SUBSET binds, Remove(R) PROVE Inv'
    BY <2>2 DEF Remove, Inv, TypeOK, AtMostOneBindingPerServer, IdsDistinct, IdsBelowNext
  <2>3. CASE UNCHANGED vars
    BY <2>3 DEF vars, Inv, TypeOK, AtMostOneBindingPerServer, IdsDistinct, IdsBelowNext
  <2> QED BY <2>1, <2>2, <2>3 DEF Next
<1> QED BY <1>1, <1>2, PTL DEF Spec
=============================================================================
