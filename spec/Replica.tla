------------------------------ MODULE Replica ------------------------------
(***************************************************************************)
(* Beyond the listed properties: does a subscriber that applies the         *)
(* notifications of a server feature to its cache stay equal to the         *)
(* server's data?                                                           *)
(* Code-shaped model of                                                     *)
(*   - the notification a local server feature sends after a change         *)
(*     (FeatureLocal.SetData / UpdateData / accepted remote write ->        *)
(*      FunctionDataCmd.NotifyOrWriteCmdType): always the complete current  *)
(*     data; SetData and writes send it without filter; UpdateData sends it *)
(*     with an empty partial filter - also for a full update and for        *)
(*     delete filters, which are dropped - or, if the update had a partial  *)
(*     selector, with that selector and the delete filter;                  *)
(*   - the subscriber's application of it (the cmdOption engine as the code *)
(*     runs it: a selector update copies every present field of the FIRST   *)
(*     data item, identifiers included, into the selected item).            *)
(* Converges(L, u, api): a replica equal to L before the change equals the  *)
(* server's data after applying the notification.  ReplicaMC enumerates     *)
(* the domain of ListMC and reports the diverging classes; ReplicaTrace     *)
(* checks that the real stack (notification produced by the real server     *)
(* feature, applied by the real remote-feature cache) does what this model  *)
(* says, divergences included.                                              *)
(***************************************************************************)
EXTENDS ListData

\* api: "setdata" | "update" | "write"
NotifyOf(u, Lp, api) ==
    LET base == [data |-> Lp, partial |-> "none", psel |-> u.psel, delete |-> "none", dsel |-> u.dsel, delem |-> {},
                 remote |-> FALSE, persist |-> TRUE]
    IN IF api \in {"setdata", "write"} THEN base
       ELSE IF u.partial = "sel" THEN [base EXCEPT !.partial = "sel", !.delete = u.delete, !.delem = u.delem]
       ELSE [base EXCEPT !.partial = "empty"]

\* every present field of src, identifier parts included
RawCopy(dst, src) ==
    Item([i \in DOMAIN dst.k |-> IF src.k[i] # Nil THEN src.k[i] ELSE dst.k[i]],
         IF src.v # Nil THEN src.v ELSE dst.v, IF src.w # Nil THEN src.w ELSE dst.w,
         IF src.chg # "nil" THEN src.chg ELSE dst.chg)

\* what the engine makes of notification n on the cached list R (remoteWrite = FALSE, persist = TRUE)
ReplicaApply(R, n) ==
    IF IsFull(n) THEN n.data
    ELSE LET R1 == DeleteStep(R, n) IN
         IF n.partial = "sel" /\ Len(n.data) > 0
         THEN LET i == FirstMatch(R1, n.psel) IN IF i = 0 THEN R1 ELSE [R1 EXCEPT ![i] = RawCopy(@, n.data[1])]
         ELSE IF n.partial = "sel" THEN MergeLists(R1, n.data, FALSE, TRUE)
         ELSE IF Len(n.data) > 0 /\ ~HasId(n.data[1]) THEN [i \in DOMAIN R1 |-> RawCopy(R1[i], n.data[1])]
         ELSE MergeLists(R1, n.data, FALSE, TRUE)

\* the server's data after the change (what the code stores: a full update as given)
ServerAfter(L, u) == IF IsFull(u) THEN u.data ELSE LocalResult(L, u)

Converges(L, u, api) == ReplicaApply(L, NotifyOf(u, ServerAfter(L, u), api)) = ServerAfter(L, u)

\* classification of an update for the report
Shape(u) == <<u.partial, u.delete, IF Len(u.data) = 0 THEN "nodata" ELSE IF HasId(u.data[1]) THEN "ids" ELSE "noid">>
=============================================================================
