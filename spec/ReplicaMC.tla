----------------------------- MODULE ReplicaMC -----------------------------
(* Enumerates the (list, local update, API) cases of the ListMC domain and reports for which classes a replica   *)
(* fed with the server's notification diverges from the server (Replica.tla).  Evaluated once (one initial state). *)
EXTENDS ListMC, Replica

ApisOf(u) == IF IsFull(u) THEN {"setdata", "update"} ELSE {"update"}
RCases == {<<L, u, api>> \in StoredLists \X Shapes(FALSE, TRUE) \X {"setdata", "update"} : api \in ApisOf(u)}
Div == {c \in RCases : ~Converges(c[1], c[2], c[3])}
ClassOf(c) == <<Shape(c[2]), c[3]>>
Report == PrintT(<<"CONV", ToJson([cases |-> Cardinality(RCases), diverging |-> Cardinality(Div),
                                   always |-> {k \in {ClassOf(c) : c \in Div} : \A c \in RCases : ClassOf(c) = k => c \in Div},
                                   sometimes |-> {k \in {ClassOf(c) : c \in Div} : \E c \in RCases : ClassOf(c) = k /\ c \notin Div},
                                   never |-> {ClassOf(c) : c \in RCases} \ {ClassOf(c) : c \in Div},
                                   example |-> IF Div = {} THEN << >> ELSE LET c == CHOOSE c \in Div : c[2].partial = "sel" \/ \A d \in Div : d[2].partial # "sel" IN
                                               <<c[1], c[2], c[3], ServerAfter(c[1], c[2]), ReplicaApply(c[1], NotifyOf(c[2], ServerAfter(c[1], c[2]), c[3]))>>])>>)
RInit == store = << >> /\ hist = << >>
RNext == UNCHANGED vars
=============================================================================
