---------------------------- MODULE ReplicaTrace ----------------------------
(* Checks that the real stack does what Replica.tla says: every line is one change of a real server feature     *)
(*   pre / store  the server's data before / after,  u / api  the change,  ok  its outcome,                      *)
(*   mpre / mirror  the data of the subscriber's replica (a real remote-feature cache that was fed the          *)
(*   notifications the server really sent) before / after,  nnotif  the number of notifications sent.           *)
(* modelled: mirror = ReplicaApply(mpre, NotifyOf(u, store, api)); diverged: mirror # store.                    *)
EXTENDS Replica, Json, IOUtils

TraceFile == IF "VERIF_TRACE" \in DOMAIN IOEnv THEN IOEnv.VERIF_TRACE ELSE "trace.ndjson"
Trace == ndJsonDeserialize(TraceFile)

VARIABLES l, mismatch, diverged, classes
tvars == <<l, mismatch, diverged, classes>>
Init == l = 1 /\ mismatch = << >> /\ diverged = 0 /\ classes = {}

SetOfSeq(s) == {s[i] : i \in DOMAIN s}
NormItem(x) == Item(x.k, x.v, x.w, x.chg)
NormList(s) == [i \in DOMAIN s |-> NormItem(s[i])]
NormU(u) == [data |-> NormList(u.data), partial |-> u.partial, psel |-> [k |-> u.psel.k], delete |-> u.delete,
             dsel |-> [k |-> u.dsel.k], delem |-> SetOfSeq(u.delem), remote |-> u.remote, persist |-> u.persist]

Step == /\ l <= Len(Trace)
        /\ l' = l + 1
        /\ LET e == Trace[l]
               u == NormU(e.u)  S == NormList(e.store)  M0 == NormList(e.mpre)  M == NormList(e.mirror)
               expect == IF ~e.ok THEN M0 ELSE ReplicaApply(M0, NotifyOf(u, S, e.api))
               sent == IF e.ok THEN 1 ELSE 0
           IN /\ mismatch' = IF e.panic # "" \/ M # expect \/ e.nnotif # sent THEN Append(mismatch, l) ELSE mismatch
              /\ diverged' = IF M # S THEN diverged + 1 ELSE diverged
              /\ classes' = IF M # S /\ M0 = NormList(e.pre) THEN classes \cup {<<Shape(u), e.api>>} ELSE classes
TraceSpec == Init /\ [][Step]_tvars
Final == l > Len(Trace) =>
            /\ PrintT(<<"MISMATCH", ToJson(mismatch)>>)
            /\ PrintT(<<"DIVERGED", diverged>>)
            /\ PrintT(<<"CLASSES", ToJson(classes)>>)
            /\ PrintT(<<"LINES", Len(Trace)>>)
Done == TLCGet("stats").diameter - 1 = Len(Trace)
=============================================================================
