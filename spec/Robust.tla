------------------------------- MODULE Robust -------------------------------
(***************************************************************************)
(* Robustness of message handling (C05).  A message template is a valid    *)
(* datagram of one kind; its named fields are the paths of its JSON tree   *)
(* (numbered 1..NFields[t]; the Go harness owns the numbering and prints   *)
(* it).  A mutation removes, nulls, empties a field or replaces it by a    *)
(* bogus, wrong-kind or swapped (valid, but not fitting) value.  Delivering any mutated message in any       *)
(* connection phase keeps the stack alive: handling returns, and every     *)
(* connected peer still gets its detailed discovery read answered.         *)
(* The specification enumerates the deliveries; the monitor (RobustTrace)  *)
(* requires StillServing of every delivery executed on the real code.      *)
(***************************************************************************)
EXTENDS Naturals, Sequences, FiniteSets, TLC, Json, Randomization

CONSTANTS Templates, NFields, Phases, Mode, MaxSeq, Sample, JunkKinds,
          HeaderF       \* template -> the numbers of its fields that belong to the datagram header

Ops == {"drop", "null", "empty", "bogus", "wrongkind", "swap", "zero"}     \* zero: the zero value of the field's kind
Mut(f, op) == [f |-> f, op |-> op]
Delivery(t, muts, j) == [tmpl |-> t, muts |-> muts, junk |-> j, src |-> "own", dst |-> "own"]
\* the messages that change the device tree are also delivered with another announced feature of the peer as their source
TreeTemplates == {"discReply", "discNotifyAdd", "discNotifyRemove", "discNotifyFull"}
AltSrc(ds) == {[d EXCEPT !.src = "alt"] : d \in ds}
Singles0(t) == {Delivery(t, {Mut(f, op)}, 0) : f \in 1..NFields[t], op \in Ops}
\* every single mutation of a header field is also delivered addressed to a feature the local device does not have
\* (two defects at once: the error path for the one must cope with the other)
AltDst(ds) == {[d EXCEPT !.dst = "alt"] : d \in ds}
HeaderSingles(t) == {Delivery(t, {Mut(f, op)}, 0) : f \in HeaderF[t], op \in Ops}
Singles(t) == Singles0(t) \cup (IF t \in TreeTemplates THEN AltSrc(Singles0(t) \cup {Delivery(t, {}, 0)}) ELSE {})
                         \cup AltDst(HeaderSingles(t))
Pairs(t) == {Delivery(t, {Mut(f1, o1), Mut(f2, o2)}, 0) : f1 \in 1..NFields[t], f2 \in 1..NFields[t], o1 \in Ops, o2 \in Ops}
\* a seeded sample of Pairs(t), drawn constructively (the whole set has up to 125 x 125 x 49 elements per template)
PairSample(t) == {Delivery(t, {Mut(RandomElement(1..NFields[t]), RandomElement(Ops)), Mut(RandomElement(1..NFields[t]), RandomElement(Ops))}, 0) : i \in 1..Sample}
Valid(t) == Delivery(t, {}, 0)
Junk(t) == {Delivery(t, {}, j) : j \in 1..JunkKinds}

\* "single": every single-field mutation of every template and every junk variant, in every phase (exhaustive)
\* "pairs":  a seeded sample of two-field mutations
\* "seq":    sequences of up to MaxSeq (mutated) deliveries from a sample
StateTemplates == {"reply", "notifySel", "write", "writeDelete", "usecaseReply", "discReply", "discNotifyAdd", "discNotifyFull"}
FollowTemplates == {"read", "readSel", "reply", "notifySel", "write", "writeDelete", "usecaseReply", "subRequest", "bindDelete", "discNotifyRemove"}
Cases ==
    CASE Mode = "single" -> {[phase |-> ph, seq |-> <<d>>] : ph \in Phases, d \in UNION {Singles(t) \cup Junk(t) \cup {Valid(t)} : t \in Templates}}
      [] Mode = "pairs"  -> {[phase |-> ph, seq |-> <<d>>] : ph \in Phases, d \in UNION {PairSample(t) : t \in Templates}}
      [] Mode = "seq"    -> {[phase |-> ph, seq |-> <<d1, d2>>] : ph \in Phases,
                                d1 \in RandomSubset(Sample, UNION {Singles(t) : t \in Templates}),
                                d2 \in RandomSubset(4, UNION {Singles(t) \cup {Valid(t)} : t \in Templates})}

      \* "followup": every single-field mutation of a message that carries state (cached data, written data, use cases;
      \*    thorough: the device tree as well) followed by every valid data message - what the first one left behind must
      \*    not trip the handling of the second (exhaustive)
      [] Mode = "followup" -> {[phase |-> ph, seq |-> <<d1, Valid(t2)>>] : ph \in Phases,
                                d1 \in UNION {Singles(t) : t \in Templates \cap StateTemplates},
                                t2 \in Templates \cap FollowTemplates}

VARIABLES c, alive
Init == c \in Cases /\ alive = TRUE
\* delivering keeps the stack alive - that is the property; the model has no other behaviour
Next == UNCHANGED <<c, alive>>
Spec == Init /\ [][Next]_<<c, alive>>
StillServing == alive
Emit == PrintT(<<"B", ToJson(c)>>)
=============================================================================
