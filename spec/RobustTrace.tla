----------------------------- MODULE RobustTrace -----------------------------
(* Monitor for C05: every delivery executed on the real stack must have returned (no panic, no hang) and afterwards the   *)
(* detailed discovery read of every connected peer must be answered.  A panic is accepted only as a listed finding,       *)
(* identified by its innermost spine-go function (and separately if it leaves a peer unserved).                          *)
EXTENDS Naturals, Sequences, FiniteSets, TLC, Json, IOUtils
CONSTANTS KnownPanics,      \* functions whose panic is a listed finding
          KnownUnserved     \* functions whose panic is listed as leaving a peer unserved afterwards
TraceFile == IF "VERIF_TRACE" \in DOMAIN IOEnv THEN IOEnv.VERIF_TRACE ELSE "trace.ndjson"
Trace == ndJsonDeserialize(TraceFile)
Verdict(e) ==
    IF e.outcome = "hung" THEN "bad:message handling does not return"
    ELSE IF e.outcome = "panicked" THEN
         (IF e.frame \notin KnownPanics THEN "bad:panic in " \o e.frame
          ELSE IF ~e.allserved /\ e.frame \notin KnownUnserved THEN "bad:peer not served after panic in " \o e.frame
          ELSE "dev:" \o e.frame)
    ELSE IF ~e.allserved THEN "bad:a connected peer is no longer served"
    ELSE "ok"
VARIABLES l, bad, devs
tvars == <<l, bad, devs>>
Init == l = 1 /\ bad = << >> /\ devs = {}
Step == /\ l <= Len(Trace) /\ l' = l + 1
        /\ LET v == Verdict(Trace[l]) IN
           /\ bad' = IF v # "ok" /\ v \notin {"dev:" \o f : f \in KnownPanics} THEN Append(bad, [line |-> l, why |-> v]) ELSE bad
           /\ devs' = IF v \in {"dev:" \o f : f \in KnownPanics} THEN devs \cup {Trace[l].frame} ELSE devs
TraceSpec == Init /\ [][Step]_tvars
Final == l > Len(Trace) => PrintT(<<"BAD", ToJson(bad)>>) /\ PrintT(<<"DEVS", ToJson(devs)>>) /\ PrintT(<<"LINES", Len(Trace)>>)
Done == TLCGet("stats").diameter - 1 = Len(Trace)
=============================================================================
