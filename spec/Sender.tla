------------------------------- MODULE Sender -------------------------------
(***************************************************************************)
(* Outbound message identity of one connection (C13): message counters,    *)
(* de-duplication of unanswered requests, retrieval of the last NotifyMax  *)
(* notifications.                                                          *)
(*                                                                         *)
(* The contract is written as a set of allowed outcomes per call           *)
(* (ReqOut, SendOut, LookupOut, ResponseOut).  SenderMC explores it        *)
(* exhaustively for small constants and generates call sequences;          *)
(* SenderTrace validates what the real Sender did, with the real           *)
(* constants.                                                              *)
(***************************************************************************)
EXTENDS Naturals, Integers, Sequences, FiniteSets, TLC

CONSTANTS Reqs,        \* request identities (destination + command), strings
          NotifyMax,   \* the last NotifyMax notifications must be retrievable (100)
          Bound,       \* an unanswered request may be remembered while at most Bound later requests were sent
          KnownDeviations

(* State:                                                                  *)
(*   ctr    last message counter issued                                    *)
(*   mem    unanswered requests that may still be remembered:              *)
(*          set of [c, r, n]  (counter, identity, index of the request)    *)
(*   nreq   number of requests sent so far                                 *)
(*   notifs sequence of the counters of all notifications, oldest first    *)
(*          (only the tail is relevant)                                    *)
(*   lru    model of the code's cache for the named deviation:             *)
(*          counters in recency order, most recent first                   *)
InitS == [ctr |-> 0, mem |-> {}, nreq |-> 0, notifs |-> << >>, lru |-> << >>]

LastN(seq, n) == IF Len(seq) <= n THEN seq ELSE SubSeq(seq, Len(seq) - n + 1, Len(seq))
SeqSet(seq) == {seq[i] : i \in DOMAIN seq}
Recent(s) == SeqSet(LastN(s.notifs, NotifyMax))

\* an outcome: new state and what the call returned / did
Out(s, res, c, dev) == [s |-> s, res |-> res, c |-> c, dev |-> dev]

\* Request(r): withheld with the counter of an identical unanswered request, or sent with the next counter.
\* Sending although an identical request is unanswered is allowed (from outside it is what eviction from a
\* bounded memory looks like); withholding is allowed ONLY for an identical, unanswered, recent enough request.
ReqOut(s, r) ==
    LET c == s.ctr + 1
        sent == Out([s EXCEPT !.ctr = c, !.nreq = @ + 1,
                              !.mem = {e \in @ : e.r # r} \cup {[c |-> c, r |-> r, n |-> s.nreq + 1]}], "sent", c, "ideal")
    IN {sent} \cup {Out(s, "withheld", e.c, "ideal") : e \in {x \in s.mem : x.r = r /\ s.nreq - x.n <= Bound}}

\* a datagram from the peer that references counter ref: the request is answered
ResponseOut(s, ref) == {Out([s EXCEPT !.mem = {e \in @ : e.c # ref}], "ok", ref, "ideal")}

\* cache model of the deviation: Put inserts at the front, evicting the last one when full
LruPut(lru, c) == <<c>> \o (IF Len(lru) >= NotifyMax THEN SubSeq(lru, 1, NotifyMax - 1) ELSE lru)
LruTouch(lru, c) == <<c>> \o SelectSeq(lru, LAMBDA x : x # c)

\* Notify / Write / Reply / Result: always sent, with the next counter
SendOut(s, kind) ==
    LET c == s.ctr + 1 IN
    {Out([s EXCEPT !.ctr = c,
                   !.notifs = IF kind = "notify" THEN LastN(Append(@, c), NotifyMax + 2) ELSE @,
                   !.lru = IF kind = "notify" THEN LruPut(@, c) ELSE @], "sent", c, "ideal")}

\* DatagramForMsgCounter(c): must be found (and be that datagram) if c is one of the last NotifyMax notifications;
\* an older or unknown counter may or may not be found
LookupOut(s, c) ==
    LET hit  == Out([s EXCEPT !.lru = IF c \in SeqSet(@) THEN LruTouch(@, c) ELSE @], "found", c, "ideal")
        miss == Out(s, "notfound", c, "ideal")
    IN  IF c \in Recent(s) THEN
            {hit} \cup (IF "NotifyCacheIsLRU" \in KnownDeviations /\ c \notin SeqSet(s.lru)
                        THEN {Out(s, "notfound", c, "NotifyCacheIsLRU")} ELSE {})
        ELSE IF c \in SeqSet(s.notifs) \/ c \in SeqSet(s.lru) THEN {hit, miss}
        ELSE {miss}

---------------------------------------------------------------------------
(* Properties of the contract (checked by TLC on SenderMC).                *)
\* a request is withheld only for an identical unanswered request, returning its counter
WithheldSound(s, r, o) ==
    o.res = "withheld" => \E e \in s.mem : e.r = r /\ e.c = o.c /\ o.s = s
\* counters strictly increase in issue order (hence are unique)
CounterMonotone(s, o) == o.res = "sent" => o.c = s.ctr + 1 /\ o.s.ctr = o.c
\* at most one remembered entry per identity, each for a counter that was issued
MemWellFormed(s) == /\ \A e1, e2 \in s.mem : e1.r = e2.r => e1 = e2
                    /\ \A e \in s.mem : e.c <= s.ctr /\ e.n <= s.nreq
\* a response re-enables sending: after Response(ref) no entry with that counter can justify withholding
ResponseClears(s, ref, o) == \A e \in o.s.mem : e.c # ref
=============================================================================
