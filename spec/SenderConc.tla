----------------------------- MODULE SenderConc -----------------------------
(* Free-running concurrent use of one Sender (C13, schedules clause).  A trace line is one round:         *)
(*   calls: [g, kind, start, end, ret, sent]  - start / end are values of one atomic sequence counter     *)
(*          taken immediately before the call and immediately after it returned                          *)
(*   wire:  the counters of all datagrams written to the connection                                      *)
(* Every call of a round sends (the requests are pairwise different), so:                                *)
(*   - every counter on the wire is carried by exactly one datagram, and the wire carries exactly the    *)
(*     counters the calls returned;                                                                      *)
(*   - counters strictly increase in issue order whenever calls do not overlap.                          *)
EXTENDS Naturals, Sequences, FiniteSets, TLC, Json, IOUtils

TraceFile == IF "VERIF_TRACE" \in DOMAIN IOEnv THEN IOEnv.VERIF_TRACE ELSE "trace.ndjson"
Trace == ndJsonDeserialize(TraceFile)

NoDup(seq) == \A i, j \in DOMAIN seq : seq[i] = seq[j] => i = j
SeqSet(seq) == {seq[i] : i \in DOMAIN seq}

RoundDefects(r) ==
    LET calls == r.calls  n == Len(calls) IN
    (IF NoDup(r.wire) THEN {} ELSE {"duplicate counter on the wire"})
    \cup (IF \A i \in 1..n : calls[i].sent THEN {} ELSE {"call did not send"})
    \cup (IF NoDup([i \in 1..n |-> calls[i].ret]) THEN {} ELSE {"two calls returned the same counter"})
    \cup (IF SeqSet(r.wire) = {calls[i].ret : i \in 1..n} /\ Len(r.wire) = n THEN {} ELSE {"wire and returned counters differ"})
    \cup (IF \A i, j \in 1..n : calls[i].end < calls[j].start => calls[i].ret < calls[j].ret THEN {} ELSE {"not monotone for non-overlapping calls"})

VARIABLE l
Init == l = 1
Next == l <= Len(Trace) /\ l' = l + 1
Spec == Init /\ [][Next]_l
Defects == [i \in 1..Len(Trace) |-> RoundDefects(Trace[i])]
Final == l > Len(Trace) => PrintT(<<"CONC", ToJson([i \in {j \in 1..Len(Trace) : Defects[j] # {}} |-> Defects[i]])>>) /\ PrintT(<<"ROUNDS", Len(Trace)>>)
=============================================================================
