----------------------------- MODULE SenderConc -----------------------------
(* Free-running concurrent use of one Sender (C13, schedules clause).  A trace line is one round:         *)
(*   calls: [g, kind, start, end, ret, sent]  - start / end are values of one atomic sequence counter     *)
(*          taken immediately before the call and immediately after it returned                          *)
(*   wire:  the counters of all datagrams written to the connection                                      *)
(* A call either sends (its counter appears on the wire) or - a request while an identical one is        *)
(* unanswered - is withheld and returns the earlier counter.  So:                                        *)
(*   - every counter on the wire is carried by exactly one datagram, and the wire carries exactly the    *)
(*     counters the calls returned;                                                                      *)
(*   - a counter returned by several calls was returned to identical requests only;                      *)
(*   - counters strictly increase in issue order whenever calls do not overlap (calls that share their   *)
(*     counter with another call - one of them sent, the others were withheld - are left out).           *)
(* The first rounds are forced: one call parked right after it drew its counter, another call meanwhile. *)
EXTENDS Naturals, Sequences, FiniteSets, TLC, Json, IOUtils

TraceFile == IF "VERIF_TRACE" \in DOMAIN IOEnv THEN IOEnv.VERIF_TRACE ELSE "trace.ndjson"
Trace == ndJsonDeserialize(TraceFile)

NoDup(seq) == \A i, j \in DOMAIN seq : seq[i] = seq[j] => i = j
SeqSet(seq) == {seq[i] : i \in DOMAIN seq}

RoundDefects(r) ==
    LET calls == r.calls  n == Len(calls)
        \* counters returned by more than one call (computed once per round)
        DupRets == {calls[i].ret : i \in {k \in 1..n : \E j \in 1..n : j # k /\ calls[j].ret = calls[k].ret}}
        Single(i) == calls[i].ret \notin DupRets
    IN
    (IF NoDup(r.wire) THEN {} ELSE {"duplicate counter on the wire"})
    \cup (IF \A i \in 1..n : calls[i].sent THEN {} ELSE {"call returned no counter"})
    \cup (IF \A i, j \in 1..n : calls[i].ret = calls[j].ret /\ i # j => calls[i].kind = "request" /\ calls[j].kind = "request" /\ calls[i].key = calls[j].key
          THEN {} ELSE {"two different calls returned the same counter"})
    \cup (IF SeqSet(r.wire) = {calls[i].ret : i \in 1..n} THEN {} ELSE {"wire and returned counters differ"})
    \cup (IF \A i, j \in 1..n : calls[i].end < calls[j].start /\ Single(i) /\ Single(j) => calls[i].ret < calls[j].ret THEN {} ELSE {"not monotone for non-overlapping calls"})

VARIABLE l
Init == l = 1
Next == l <= Len(Trace) /\ l' = l + 1
Spec == Init /\ [][Next]_l
Defects == [i \in 1..Len(Trace) |-> RoundDefects(Trace[i])]
Final == l > Len(Trace) => PrintT(<<"CONC", ToJson([i \in {j \in 1..Len(Trace) : Defects[j] # {}} |-> Defects[i]])>>) /\ PrintT(<<"ROUNDS", Len(Trace)>>)
=============================================================================
