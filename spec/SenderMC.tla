------------------------------ MODULE SenderMC ------------------------------
(* Exhaustive check of the Sender contract for small constants, and generator of call sequences. *)
EXTENDS Sender, Json

CONSTANTS MaxLen, MaxCtr
VARIABLES s, hist, last
vars == <<s, hist, last>>

Calls(st) ==
    {[op |-> "request", r |-> r] : r \in Reqs}
    \cup {[op |-> "response", ref |-> c] : c \in 0..(st.ctr + 1)}
    \cup {[op |-> "send", kind |-> k] : k \in {"notify", "write", "reply", "result"}}
    \cup {[op |-> "lookup", c |-> c] : c \in 0..(st.ctr + 1)}

Outs(st, a) == CASE a.op = "request"  -> ReqOut(st, a.r)
                 [] a.op = "response" -> ResponseOut(st, a.ref)
                 [] a.op = "send"     -> SendOut(st, a.kind)
                 [] a.op = "lookup"   -> LookupOut(st, a.c)

Init == s = InitS /\ hist = << >> /\ last = [a |-> [op |-> "none"], o |-> Out(InitS, "", 0, "ideal"), pre |-> InitS]
Next == /\ Len(hist) < MaxLen /\ s.ctr < MaxCtr
        /\ \E a \in Calls(s) : \E o \in Outs(s, a) :
              s' = o.s /\ hist' = Append(hist, a) /\ last' = [a |-> a, o |-> o, pre |-> s]
Spec == Init /\ [][Next]_vars
View == s
Emit == PrintT(<<"B", ToJson(hist')>>)

Inv == MemWellFormed(s)
StepAction ==
    LET a == last'.a  o == last'.o  p == last'.pre IN
    a.op # "none" =>
        /\ CounterMonotone(p, o)
        /\ (a.op = "request"  => WithheldSound(p, a.r, o))
        /\ (a.op = "response" => ResponseClears(p, a.ref, o))
        \* a different request is never withheld: withholding needs an entry with this very identity
        /\ (a.op = "request" /\ ~\E e \in p.mem : e.r = a.r) => o.res = "sent"
        \* the last NotifyMax notifications are retrievable
        /\ (a.op = "lookup" /\ a.c \in Recent(p)) => o.res = "found"
StepProperty == [][StepAction]_vars
=============================================================================
