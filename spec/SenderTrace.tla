----------------------------- MODULE SenderTrace -----------------------------
(* Trace validation of the real spine.Sender against the Sender contract (monitor style), *)
(* with the real constants.  One ndjson line per call:                                   *)
(*   op, arguments (r | ref | kind | c), res, ret (counter returned), wire (counters of  *)
(*   the datagrams the call wrote to the connection), match (the datagram written / found *)
(*   is the right one).                                                                  *)
EXTENDS Sender, Json, IOUtils, SequencesExt

TraceFile == IF "VERIF_TRACE" \in DOMAIN IOEnv THEN IOEnv.VERIF_TRACE ELSE "trace.ndjson"
Trace == ndJsonDeserialize(TraceFile)

VARIABLES l, s, bad, devs
tvars == <<l, s, bad, devs>>

Init == l = 1 /\ s = InitS /\ bad = << >> /\ devs = << >>

Bump(d, name, line) == IF name \in DOMAIN d THEN [d EXCEPT ![name].n = @ + 1]
                       ELSE [x \in DOMAIN d \cup {name} |-> IF x = name THEN [n |-> 1, first |-> line] ELSE d[x]]

Outs(st, e) == CASE e.op = "request"  -> ReqOut(st, e.r)
                 [] e.op = "response" -> ResponseOut(st, e.ref)
                 [] e.op = "send"     -> SendOut(st, e.kind)
                 [] e.op = "lookup"   -> LookupOut(st, e.c)

\* what the call must have put on the wire
WireOK(e) == /\ e.match
             /\ IF e.res = "sent" THEN e.wire = <<e.ret>> ELSE e.wire = << >>

\* keep in step with the code after a disagreement
Resync(st, e) == IF e.res = "sent"
                 THEN [st EXCEPT !.ctr = IF e.ret > @ THEN e.ret ELSE @,
                                 !.mem = IF e.op = "request" THEN {x \in @ : x.r # e.r} \cup {[c |-> e.ret, r |-> e.r, n |-> st.nreq + 1]} ELSE @,
                                 !.nreq = IF e.op = "request" THEN @ + 1 ELSE @]
                 ELSE st

Step ==
    /\ l <= Len(Trace)
    /\ l' = l + 1
    /\ LET e == Trace[l] IN
       IF e.op = "reset" THEN s' = InitS /\ UNCHANGED <<bad, devs>>
       ELSE LET outs == Outs(s, e)
                hit  == {o \in outs : o.res = e.res /\ o.c = e.ret}
            IN IF hit = {} \/ ~WireOK(e)
               THEN /\ bad' = Append(bad, [line |-> l, e |-> e, why |-> IF hit = {} THEN "outcome" ELSE "wire"])
                    /\ devs' = devs
                    /\ s' = IF hit = {} THEN Resync(s, e) ELSE (CHOOSE o \in hit : TRUE).s
               ELSE LET o == IF \E x \in hit : x.dev = "ideal" THEN CHOOSE x \in hit : x.dev = "ideal" ELSE CHOOSE x \in hit : TRUE
                    IN /\ s' = o.s
                       /\ bad' = bad
                       /\ devs' = IF o.dev = "ideal" THEN devs ELSE Bump(devs, o.dev, l)

TraceSpec == Init /\ [][Step]_tvars
Final == l > Len(Trace) =>
            /\ PrintT(<<"BAD", ToJson(bad)>>)
            /\ PrintT(<<"DEVS", ToJson(devs)>>)
            /\ PrintT(<<"LINES", Len(Trace)>>)
Done == TLCGet("stats").diameter - 1 = Len(Trace)
=============================================================================
