------------------------------ MODULE SpineCore ------------------------------
(***************************************************************************)
(* Abstract state machine of one spine-go local device talking to several  *)
(* peers: connection, discovery, subscription and binding registries,      *)
(* remote write gate, notification fan-out, client-side bookkeeping,       *)
(* remote entity removal, teardown.                                        *)
(*                                                                         *)
(* Every action is a pure operator  XOut(st, a)  returning the SET of      *)
(* outcomes  [st, out, ev, ret, dev]  the contract allows (ideal outcome   *)
(* plus named deviations listed in KnownDeviations).  The exhaustive       *)
(* checker (CoreMC), the input generator (CoreGen) and the trace monitor   *)
(* (CoreTrace) all use these operators.                                    *)
(*                                                                         *)
(* Properties served: C01 (responses), C03 (write gate), C08, C09, C10,    *)
(* C06 (entity add/remove part), C14 (callbacks).                          *)
(***************************************************************************)
EXTENDS Naturals, Integers, Sequences, FiniteSets, TLC, SequencesExt

CONSTANTS Peers,            \* set of peer names (strings), e.g. {"p1","p2"}
          KnownDeviations,  \* names of deviations accepted as known findings
          Acts,             \* action kinds offered by Inputs (generator / MC)
          MaxVal,           \* data values 1..MaxVal
          MaxReq,           \* bound on the number of distinct request counters handed out to local features
          GhostCap,         \* cap of the ghost counters nsub/nbind (0 = ghosts off)
          Tiny,             \* set of action kinds offered with a minimal argument domain (for full history trees)
          Rich              \* set of action kinds for which Inputs also offers the invalid / unusual argument variants

---------------------------------------------------------------------------
(* Topology.  The Go harness builds exactly this system (CoreGen prints it *)
(* as JSON, the harness reads it: one source of truth).                    *)

LF == [ NM |-> [ent |-> "0", type |-> "NodeManagement",       role |-> "special"],
        DC |-> [ent |-> "0", type |-> "DeviceClassification", role |-> "server"],
        S1 |-> [ent |-> "1", type |-> "LoadControl",          role |-> "server"],
        K1 |-> [ent |-> "1", type |-> "LoadControl",          role |-> "client"],
        S2 |-> [ent |-> "2", type |-> "LoadControl",          role |-> "server"],
        S3 |-> [ent |-> "2", type |-> "DeviceConfiguration",  role |-> "server"],
        \* a feature of the nested entity [1,1] that has the same feature number as S1 of its parent [1]
        S4 |-> [ent |-> "1.1", type |-> "LoadControl",        role |-> "server"],
        \* features of type Generic (a Generic feature matches every requested type - its role still has to fit)
        G1 |-> [ent |-> "2", type |-> "Generic",              role |-> "client"],
        G2 |-> [ent |-> "2", type |-> "Generic",              role |-> "server"],
        \* a feature with role special that is not the node management (read, subscribed and bound to like a server feature)
        Z1 |-> [ent |-> "1.1", type |-> "DeviceConfiguration", role |-> "special"] ]
LocalNames == DOMAIN LF
LocalUnknown == {"X19", "X91"}      \* unknown feature in known entity / unknown entity

\* functions added to the local server features: <<feature, fn>> -> [r, w]
LFn == [ S1 |-> [limit |-> [r |-> TRUE, w |-> TRUE], ldesc |-> [r |-> TRUE, w |-> FALSE]],
         S2 |-> [limit |-> [r |-> TRUE, w |-> FALSE]],
         S3 |-> [kv    |-> [r |-> TRUE, w |-> TRUE], kvdesc |-> [r |-> TRUE, w |-> FALSE]],
         S4 |-> [limit |-> [r |-> TRUE, w |-> TRUE]],
         DC |-> [mfr   |-> [r |-> TRUE, w |-> FALSE]],
         K1 |-> << >>,
         Z1 |-> [kv    |-> [r |-> TRUE, w |-> TRUE]],
         G1 |-> << >>,
         G2 |-> << >>,
         NM |-> << >> ]          \* node management functions are handled by payload kind, not here
\* functions registered for a feature type (CreateFunctionData) in this abstraction
TypeFns == [ LoadControl |-> {"limit", "ldesc"}, DeviceConfiguration |-> {"kv", "kvdesc"},
             DeviceClassification |-> {"mfr"}, NodeManagement |-> {}, Generic |-> {} ]
DataFns == {"limit", "ldesc", "kv", "kvdesc", "mfr"}
\* data cells that the configs vary
Cell(s, fn) == s \o "." \o fn
Cells == {"S1.limit", "S2.limit", "S3.kv", "S4.limit"}
CellS == [c \in Cells |-> CASE c = "S1.limit" -> "S1" [] c = "S2.limit" -> "S2" [] c = "S3.kv" -> "S3" [] c = "S4.limit" -> "S4"]
CellFn == [c \in Cells |-> CASE c = "S1.limit" -> "limit" [] c = "S2.limit" -> "limit" [] c = "S3.kv" -> "kv" [] c = "S4.limit" -> "limit"]

RF == [ nm  |-> [ent |-> "0", type |-> "NodeManagement",      role |-> "special"],
        c11 |-> [ent |-> "1", type |-> "LoadControl",         role |-> "client"],
        c12 |-> [ent |-> "1", type |-> "LoadControl",         role |-> "client"],
        c13 |-> [ent |-> "1", type |-> "DeviceConfiguration", role |-> "client"],
        s14 |-> [ent |-> "1", type |-> "LoadControl",         role |-> "server"],
        c21 |-> [ent |-> "2", type |-> "LoadControl",         role |-> "client"],
        n11 |-> [ent |-> "1.1", type |-> "LoadControl",       role |-> "client"],
        g15 |-> [ent |-> "1", type |-> "Generic",             role |-> "server"],
        g16 |-> [ent |-> "1", type |-> "Generic",             role |-> "client"] ]   \* nested entity [1,1], feature 1
RemoteNames == DOMAIN RF
RemoteUnknown == {"x19", "x91"}
REnts == {"0", "1", "2", "1.1"}
AnnEnts == {"1", "2"}               \* entities that the inputs entadd / entrem add / remove
CatFeats(e) == {f \in RemoteNames \ {"nm"} : RF[f].ent = e}      \* catalogue features of entity e

Vals == 1..MaxVal
UcEnts == IF "adduc" \in Tiny THEN {"1"} ELSE {"1", "2"}
UcActors == IF "adduc" \in Tiny THEN {"CEM"} ELSE {"CEM", "EV"}
UcNames == {"ucA", "ucB"}

---------------------------------------------------------------------------
(* State *)

InitSt == [ conn  |-> {},                          \* peers with a connection (SetupRemoteDevice)
            addr  |-> {},                          \* peers whose device address is known (discovery reply seen)
            known |-> [p \in Peers |-> {}],         \* remote entities known per peer
            edesc |-> [p \in Peers |-> [e \in REnts |-> 0]],  \* version of the description last announced for a known
                                                    \* entity (0 = none / not known; the entity type is fixed per address)
            feats |-> [p \in Peers |-> {}],         \* remote features known per peer: [f, v] (v = announced version:
                                                    \* description and operations), without the node management feature
            subs  |-> {},                           \* [p, c, s]  server-side subscription registry
            binds |-> {},                           \* [p, c, s]  server-side binding registry
            csub  |-> {},                           \* [k, p, r]  client-side subscription bookkeeping
            cbind |-> {},                           \* [k, p, r]  client-side binding bookkeeping
            data  |-> [c \in Cells |-> 0],          \* abstract data version per cell (0 = initial)
            rdata |-> [p \in Peers |-> 0],          \* cached data of the peer's server feature s14 (function limit)
            rucs  |-> [p \in Peers |-> 0],          \* the peer's use cases as last announced by its node management
                                                    \* (DeviceRemote.UseCases; abstract version, 0 = none)
            \* requests of the local client feature K1 and callbacks (C14).  Request counters are abstracted to
            \* ids 1, 2, .. in the order in which they are first handed out.
            ucs   |-> {},                          \* use-case registry: [e, actor, name, ver, av, sc] (C20)
            nid   |-> 0,                           \* ids handed out so far
            unans |-> [p \in Peers |-> 0],          \* id of K1's unanswered read request to p.s14 (0 = none)
            cbs   |-> {},                          \* [k, h, cb] response callbacks registered on local feature k for id h
            rcbs  |-> {},                          \* [k, cb]    result callbacks registered on local feature k
            \* ghosts: number of registry insertions so far (capped).  No outcome depends on them; they only keep
            \* states with a different insertion history apart, so that the transition cover also reaches the
            \* hidden state of the code (id counters, slice capacity) behind one abstract registry value
            nsub  |-> 0, nbind |-> 0,
            nfire |-> 0 ]                          \* ghost: steps in which callbacks fired so far (capped)

Discovered(st, p) == p \in st.conn /\ p \in st.addr
\* the device address of a peer is known after its first discovery reply
RKnown(st, p, c)  == /\ c \in RemoteNames /\ p \in st.conn
                     /\ IF c = "nm" THEN "0" \in st.known[p] ELSE \E x \in st.feats[p] : x.f = c

TypeOK(st) ==
    /\ st.conn \subseteq Peers /\ st.addr \subseteq st.conn
    /\ \A p \in Peers : st.known[p] \subseteq REnts
    /\ \A p \in Peers : \A x \in st.feats[p] : x.f \in RemoteNames /\ RF[x.f].ent \in st.known[p]
    /\ \A p \in Peers : \A x, y \in st.feats[p] : x.f = y.f => x = y
    /\ \A e \in st.subs \cup st.binds : e.p \in Peers /\ e.c \in RemoteNames /\ e.s \in LocalNames
    /\ \A e \in st.csub \cup st.cbind : e.k \in LocalNames /\ e.p \in Peers /\ e.r \in RemoteNames

---------------------------------------------------------------------------
(* Abstract datagrams written by the local stack (only responses and       *)
(* notifications are modelled; requests the stack originates are followed  *)
(* by the Sender module).  All records have the same fields.               *)

NoEnts == {}
\* ref: "req" = references the message counter of the inbound datagram of this step, "none" = no reference
Dg(k, ok, src, dst, fn, val, ents) ==
    [k |-> k, ok |-> ok, ref |-> IF k = "notify" THEN "none" ELSE "req",
     src |-> src, dst |-> dst, fn |-> fn, val |-> val, ents |-> ents, ucs |-> {}]
WithUcs(d, ucs) == [d EXCEPT !.ucs = ucs]
ResOK(s, c)        == Dg("result", TRUE,  s, c, "", -1, NoEnts)
ResErr(s, c)       == Dg("result", FALSE, s, c, "", -1, NoEnts)
Reply(s, c, fn, v) == Dg("reply",  TRUE,  s, c, fn, v, NoEnts)
ReplyList(s, c, fn, es) == Dg("reply", TRUE, s, c, fn, -1, es)
Notify(s, c, fn, v) == Dg("notify", TRUE, s, c, fn, v, NoEnts)

NoOut == [p \in Peers |-> {}]
OutTo(p, ds) == [q \in Peers |-> IF q = p THEN ds ELSE {}]
Ack(a, s, c) == IF a.ack THEN {ResOK(s, c)} ELSE {}

\* events: [t, chg, p, e, c, s]   (t in dev/ent/sub/bind/data)
Ev(t, chg, p, e, c, s) == [t |-> t, chg |-> chg, p |-> p, e |-> e, c |-> c, s |-> s]

\* cbf: callbacks invoked by the step, [k, cb, kind, h, good] (good: called with the received data and the
\* originating remote feature)
Outcome(st, out, ev, ret, dev) == [st |-> st, out |-> out, ev |-> ev, ret |-> ret, dev |-> dev, cbf |-> {}]
WithCbf(o, cbf) == [o EXCEPT !.cbf = cbf, !.st.nfire = IF cbf # {} /\ @ < GhostCap THEN @ + 1 ELSE @]
Ideal == "ideal"

---------------------------------------------------------------------------
(* Connection, discovery, teardown *)

ConnectOut(st, a) ==
    LET p == a.p IN
    { Outcome([st EXCEPT !.conn = @ \cup {p}, !.known[p] = {"0"}, !.rucs[p] = 0, !.edesc[p] = [e \in REnts |-> 0]], NoOut, {}, "ok", Ideal) }

OfPeer(set, p)      == {e \in set : e.p = p}
OfPeerEnt(set, p, e) == {x \in set : x.p = p /\ RF[x.c].ent = e}
COfPeerEnt(set, p, e) == {x \in set : x.p = p /\ RF[x.r].ent = e}
RemEvents(t, set)   == {Ev(t, "remove", x.p, "", x.c, x.s) : x \in set}
\* cascade removals (entity removed, device disconnected) publish one event per entry; the event names the client
\* feature only if it is still announced (an entity re-announced with fewer features keeps the entries of the
\* features it no longer lists; their removal event then carries no feature) - follows the code, no property decides it
RemEventsSt(st, t, set) == {Ev(t, "remove", x.p, "", IF RKnown(st, x.p, x.c) THEN x.c ELSE "nil", x.s) : x \in set}

\* entity e of peer p (re)announced with the features fs in version v: the entity's features are replaced
\* (fresh feature objects: cached data of the old ones is gone)
SetEnt(st, p, e, fs, v) ==
    [st EXCEPT !.known[p] = @ \cup {e},
               !.edesc[p][e] = v,
               !.feats[p] = {x \in @ : RF[x.f].ent # e} \cup {[f |-> f, v |-> v] : f \in fs},
               !.rdata[p] = IF e = "1" THEN 0 ELSE @,
               !.rucs[p] = IF e = "0" THEN 0 ELSE @]
\* entity e of peer p removed: its features, and exactly the registry entries and client-side references of that entity
DropEnt(st, p, e) ==
    [st EXCEPT !.known[p] = @ \ {e},
               !.edesc[p][e] = 0,
               !.feats[p] = {x \in @ : RF[x.f].ent # e},
               !.rdata[p] = IF e = "1" THEN 0 ELSE @,
               !.subs = @ \ OfPeerEnt(st.subs, p, e), !.binds = @ \ OfPeerEnt(st.binds, p, e),
               !.csub = @ \ COfPeerEnt(st.csub, p, e), !.cbind = @ \ COfPeerEnt(st.cbind, p, e)]
DropEvents(st, p, e) == {Ev("ent", "remove", p, e, "", "")} \cup RemEventsSt(st, "sub", OfPeerEnt(st.subs, p, e))
                           \cup RemEventsSt(st, "bind", OfPeerEnt(st.binds, p, e))

RECURSIVE SetEnts(_, _, _)
SetEnts(st, p, es) == IF es = {} THEN st
                      ELSE LET e == CHOOSE x \in es : TRUE IN SetEnts(SetEnt(st, p, e, CatFeats(e), 1), p, es \ {e})

\* discovery reply announcing the entities a.ents (always with "0") with all their catalogue features, version 1
DiscoverOut(st, a) ==
    LET p == a.p
        ann == a.ents \cup {"0"}
        new == ann \ st.known[p]
        st1 == SetEnts(st, p, ann)
    IN  IF p \notin st.conn THEN { Outcome(st, NoOut, {}, "ok", Ideal) }
        ELSE { Outcome([st1 EXCEPT !.addr = @ \cup {p},
                                    !.csub = @ \cup {[k |-> "NM", p |-> p, r |-> "nm"]}],
                       OutTo(p, Ack(a, "NM", "nm")),
                       {Ev("dev", "add", p, "", "", "")} \cup {Ev("ent", "add", p, e, "", "") : e \in new},
                       "ok", Ideal) }

DisconnectOut(st, a) ==
    LET p == a.p IN
    IF p \notin st.conn
    THEN { Outcome(st, NoOut, {Ev("dev", "remove", p, "", "", "")}, "ok", Ideal) }
    ELSE { Outcome([st EXCEPT !.conn = @ \ {p}, !.addr = @ \ {p}, !.known[p] = {}, !.edesc[p] = [e \in REnts |-> 0], !.feats[p] = {}, !.rdata[p] = 0, !.rucs[p] = 0, !.unans[p] = 0,
                               !.subs = @ \ OfPeer(st.subs, p), !.binds = @ \ OfPeer(st.binds, p),
                               !.csub = @ \ OfPeer(st.csub, p), !.cbind = @ \ OfPeer(st.cbind, p)],
                   NoOut,
                   RemEventsSt(st, "sub", OfPeer(st.subs, p)) \cup RemEventsSt(st, "bind", OfPeer(st.binds, p))
                      \cup {Ev("dev", "remove", p, "", "", "")},
                   "ok", Ideal) }

\* partial discovery notification: entity e of peer p removed
EntRemOut(st, a) ==
    LET p == a.p  e == a.e IN
    IF ~Discovered(st, p) THEN { Outcome(st, NoOut, {}, "ok", Ideal) }
    ELSE IF e \notin st.known[p]
    THEN { Outcome(st, OutTo(p, Ack(a, "NM", "nm")), {}, "ok", Ideal) }
    ELSE { Outcome(DropEnt(st, p, e), OutTo(p, Ack(a, "NM", "nm")), DropEvents(st, p, e), "ok", Ideal) }

\* partial discovery notification: entity e of peer p added (with its catalogue features, version 1)
EntAddOut(st, a) ==
    LET p == a.p  e == a.e IN
    IF ~Discovered(st, p) THEN { Outcome(st, NoOut, {}, "ok", Ideal) }
    ELSE { Outcome(SetEnt(st, p, e, CatFeats(e), 1),
                   OutTo(p, Ack(a, "NM", "nm")),
                   IF e \in st.known[p] THEN {} ELSE {Ev("ent", "add", p, e, "", "")},
                   "ok", Ideal) }

(* General announcement (C06).  a = [a |-> "ann", p, kind, items, ack]:                  *)
(*   kind "reply" | "partial" | "full"; items = sequence of [e, chg, fs, v] in message    *)
(*   order; chg "added" | "removed" (only partial notifications carry a state change;     *)
(*   in a reply / full notification every entry describes an existing entity).            *)
(*   Entity "0" with the node management feature is part of every reply and full          *)
(*   notification (left implicit here; without it the peer is wiped: a C05 input).        *)
RECURSIVE ApplyItems(_, _, _, _)
ApplyItems(st, p, items, i) ==
    IF i > Len(items) THEN [st |-> st, ev |-> {}]
    ELSE LET it == items[i]
             r  == IF it.chg = "added"
                   THEN [st |-> SetEnt(st, p, it.e, it.fs, it.v),
                         ev |-> IF it.e \in st.known[p] THEN {} ELSE {Ev("ent", "add", p, it.e, "", "")}]
                   ELSE IF it.e \in st.known[p]
                   THEN [st |-> DropEnt(st, p, it.e), ev |-> DropEvents(st, p, it.e)]
                   ELSE [st |-> st, ev |-> {}]
             rest == ApplyItems(r.st, p, items, i + 1)
         IN [st |-> rest.st, ev |-> r.ev \cup rest.ev]

SelectItems(items, keep(_)) == SelectSeq(items, keep)
ItemEnts(items) == {items[i].e : i \in DOMAIN items}

AnnOut(st, a) ==
    LET p == a.p IN
    \* (notifications are applied also before the first discovery reply: "any sequence")
    IF p \notin st.conn THEN { Outcome(st, NoOut, {}, "ok", Ideal) }
    ELSE IF a.kind = "reply" THEN
         LET r == ApplyItems(st, p, a.items, 1)
             new0 == IF "0" \in st.known[p] THEN {} ELSE {Ev("ent", "add", p, "0", "", "")}
         \* (entity "0" is announced again: its node management feature is a fresh object, the cached use cases are gone)
         IN { Outcome([r.st EXCEPT !.addr = @ \cup {p}, !.known[p] = @ \cup {"0"}, !.rucs[p] = 0, !.edesc[p]["0"] = 1,
                                   !.csub = @ \cup {[k |-> "NM", p |-> p, r |-> "nm"]}],
                      OutTo(p, Ack(a, "NM", "nm")),
                      {Ev("dev", "add", p, "", "", "")} \cup new0 \cup r.ev, "ok", Ideal) }
    ELSE IF a.kind = "partial" THEN
         IF Len(a.items) = 0 THEN { Outcome(st, OutTo(p, {ResErr("NM", "nm")}), {}, "ok", Ideal) }
         ELSE LET r == ApplyItems(st, p, a.items, 1)
              IN { Outcome(r.st, OutTo(p, Ack(a, "NM", "nm")), r.ev, "ok", Ideal) }
    ELSE \* full notification: the announced list is the complete list of entities.
         \* Not determined by any property (both allowed): whether the entities that stay get their features
         \* refreshed, and whether a notification that changes nothing is acknowledged or rejected.
         LET IsNew(it)  == it.e \notin st.known[p]
             IsOld(it)  == it.e \in st.known[p]
             gone       == (st.known[p] \ {"0"}) \ ItemEnts(a.items)
             goneItems  == SetToSeq({[e |-> e, chg |-> "removed", fs |-> {}, v |-> 0] : e \in gone})
             diffOnly   == ApplyItems(st, p, SelectItems(a.items, IsNew) \o goneItems, 1)
             refreshed  == ApplyItems(st, p, a.items \o goneItems, 1)
             nochange   == gone = {} /\ \A i \in DOMAIN a.items : IsOld(a.items[i])
         IN { Outcome(diffOnly.st, OutTo(p, Ack(a, "NM", "nm")), diffOnly.ev, "ok", Ideal),
              Outcome([refreshed.st EXCEPT !.rucs[p] = 0, !.edesc[p]["0"] = 1], OutTo(p, Ack(a, "NM", "nm")), refreshed.ev, "ok", Ideal) }
            \cup (IF nochange THEN { Outcome(st, OutTo(p, {ResErr("NM", "nm")}), {}, "ok", Ideal) } ELSE {})

---------------------------------------------------------------------------
(* Registries: subscription and binding calls from a peer.                 *)
(* a = [a, p, c, s, ft, ack] ; ft = requested server feature type          *)

SrvOK(s, ft) == /\ s \in LocalNames
                /\ LF[s].role \in {"server", "special"}
                /\ (LF[s].type = ft \/ LF[s].type = "Generic")
CliOK(st, p, c, ft) == /\ RKnown(st, p, c)
                       /\ RF[c].role \in {"client", "special"}
                       /\ (RF[c].type = ft \/ RF[c].type = "Generic")
Entry(p, c, s) == [p |-> p, c |-> c, s |-> s]
Ghost(n) == IF n < GhostCap THEN n + 1 ELSE n

SubGranted(st, a)  == SrvOK(a.s, a.ft) /\ CliOK(st, a.p, a.c, a.ft) /\ Entry(a.p, a.c, a.s) \notin st.subs
BindGranted(st, a) == SrvOK(a.s, a.ft) /\ CliOK(st, a.p, a.c, a.ft) /\ ~\E b \in st.binds : b.s = a.s

\* calls are sent by the peer's node management to the local node management
CallRes(a, ok) == OutTo(a.p, IF ok THEN Ack(a, "NM", "nm") ELSE {ResErr("NM", "nm")})

SubOut(st, a) ==
    IF a.p \notin st.conn THEN { Outcome(st, NoOut, {}, "ok", Ideal) }
    ELSE IF SubGranted(st, a)
    THEN { Outcome([st EXCEPT !.subs = @ \cup {Entry(a.p, a.c, a.s)}, !.nsub = Ghost(@)], CallRes(a, TRUE),
                   {Ev("sub", "add", a.p, "", a.c, a.s)}, "ok", Ideal) }
    ELSE { Outcome(st, CallRes(a, FALSE), {}, "ok", Ideal) }

UnsubOut(st, a) ==
    IF ~Discovered(st, a.p) THEN { Outcome(st, NoOut, {}, "ok", Ideal) }
    ELSE IF a.dev = "other" THEN { Outcome(st, CallRes(a, FALSE), {}, "ok", Ideal) }
    ELSE IF Entry(a.p, a.c, a.s) \in st.subs
    THEN { Outcome([st EXCEPT !.subs = @ \ {Entry(a.p, a.c, a.s)}], CallRes(a, TRUE),
                   {Ev("sub", "remove", a.p, "", a.c, a.s)}, "ok", Ideal) }
    ELSE { Outcome(st, CallRes(a, FALSE), {}, "ok", Ideal) }

BindOut(st, a) ==
    IF ~Discovered(st, a.p) THEN { Outcome(st, NoOut, {}, "ok", Ideal) }
    ELSE IF BindGranted(st, a)
    THEN { Outcome([st EXCEPT !.binds = @ \cup {Entry(a.p, a.c, a.s)}, !.nbind = Ghost(@)], CallRes(a, TRUE),
                   {Ev("bind", "add", a.p, "", a.c, a.s)}, "ok", Ideal) }
    ELSE { Outcome(st, CallRes(a, FALSE), {}, "ok", Ideal) }

\* Deviation (repaired by a fix: commit, kept only to demonstrate its consequence):
\* the delete keeps only the entries that differ in BOTH client and server.
Dev_UnbindOverDelete(st, a) ==
    LET gone == {b \in st.binds : (b.p = a.p /\ b.c = a.c) \/ b.s = a.s} IN
    Outcome([st EXCEPT !.binds = @ \ gone], CallRes(a, TRUE),
            {Ev("bind", "remove", a.p, "", a.c, a.s)}, "ok", "UnbindOverDelete")

UnbindOut(st, a) ==
    IF ~Discovered(st, a.p) THEN { Outcome(st, NoOut, {}, "ok", Ideal) }
    ELSE IF a.dev = "other" THEN { Outcome(st, CallRes(a, FALSE), {}, "ok", Ideal) }
    ELSE IF Entry(a.p, a.c, a.s) \in st.binds
    THEN { Outcome([st EXCEPT !.binds = @ \ {Entry(a.p, a.c, a.s)}], CallRes(a, TRUE),
                   {Ev("bind", "remove", a.p, "", a.c, a.s)}, "ok", Ideal) }
         \cup (IF "UnbindOverDelete" \in KnownDeviations THEN {Dev_UnbindOverDelete(st, a)} ELSE {})
    ELSE { Outcome(st, CallRes(a, FALSE), {}, "ok", Ideal) }

\* the peer asks for its own subscription / binding list (classifier call)
ListOut(st, a) ==
    IF ~Discovered(st, a.p) THEN { Outcome(st, NoOut, {}, "ok", Ideal) }
    ELSE LET set == IF a.a = "listsubs" THEN st.subs ELSE st.binds
             es  == {[c |-> x.c, s |-> x.s] : x \in OfPeer(set, a.p)}
             fn  == IF a.a = "listsubs" THEN "subdata" ELSE "binddata"
         IN { Outcome(st, OutTo(a.p, {ReplyList("NM", "nm", fn, es)} \cup Ack(a, "NM", "nm")), {}, "ok", Ideal) }

---------------------------------------------------------------------------
(* Data: remote write (gate, apply, fan-out), local change, read           *)

HasFn(s, fn)   == s \in LocalNames /\ fn \in DOMAIN LFn[s]
FnWritable(s, fn) == HasFn(s, fn) /\ LFn[s][fn].w
WriteGate(st, a) == FnWritable(a.s, a.fn) /\ Entry(a.p, a.c, a.s) \in st.binds

Fanout(st, s, fn, v) == [q \in Peers |-> {Notify(s, x.c, fn, v) : x \in {y \in st.subs : y.p = q /\ y.s = s}}]
Merge2(o1, o2) == [q \in Peers |-> o1[q] \cup o2[q]]

\* a = [a |-> "write", p, c, s, fn, v, ack, hdev]   (hdev: the device part of the header's source address given or
\* omitted - it is optional, the writer is the feature of the connection the datagram came in on; the response goes to
\* the source address as given)
WDst(a) == IF a.hdev = "omit" THEN a.c \o "@nodev" ELSE a.c
WriteOut(st, a) ==
    IF ~RKnown(st, a.p, a.c) THEN { Outcome(st, NoOut, {}, "ok", Ideal) }  \* not an announced feature: dropped
    ELSE IF WriteGate(st, a) /\ Cell(a.s, a.fn) \in Cells
    THEN { Outcome([st EXCEPT !.data[Cell(a.s, a.fn)] = a.v],
                   Merge2(Fanout(st, a.s, a.fn, a.v), OutTo(a.p, Ack(a, a.s, WDst(a)))),
                   {Ev("data", "write", a.p, "", a.c, a.s)}, "ok", Ideal) }
    ELSE { Outcome(st, OutTo(a.p, {ResErr(IF a.s \in LocalNames THEN a.s ELSE a.s, WDst(a))}), {}, "ok", Ideal) }

\* local application changes data: a = [a |-> "setdata", s, fn, v, how]   (how: through SetData, through UpdateData
\* without filter, or through UpdateData with a plain partial filter - a change of the data whichever way it is made)
SetDataOut(st, a) ==
    { Outcome([st EXCEPT !.data[Cell(a.s, a.fn)] = a.v], Fanout(st, a.s, a.fn, a.v), {}, "ok", Ideal) }

---------------------------------------------------------------------------
(* Generic inbound datagram (the C01 response table).                      *)
(* a = [a |-> "recv", p, cls, c, s, pl, v, ack]                             *)
(*   (a reply and a result always carry a msgCounterReference - SPINE makes  *)
(*   it mandatory; without it the datagram is a robustness input, C05)      *)
(*   cls  classifier, c source feature, s destination (local name or        *)
(*   unknown), pl payload: a data function, or "res0"/"res1" (result with   *)
(*   error number 0 / 1), "resbad" (result data without error number),      *)
(*   "usecase", "subdata", "binddata", "destlist", "discovery"              *)
NMReadable == {"usecase", "destlist", "discovery"}     \* answered by a reply on read
NMLists    == {"subdata", "binddata"}
ResultPls  == {"res0", "res1", "resbad"}
\* functions a reply / notify from remote feature c is cached under (function data exists for the feature type)
RemoteTypeFns(c) == IF RF[c].type = "NodeManagement" THEN {"usecase", "destlist", "discovery"}
                    ELSE IF RF[c].type \in DOMAIN TypeFns THEN TypeFns[RF[c].type] ELSE {}

ListEnts(st, p, pl) == {[c |-> x.c, s |-> x.s] : x \in OfPeer(IF pl = "subdata" THEN st.subs ELSE st.binds, p)}

\* callbacks of local feature k fired by a reply (accepted) or result referencing id h; they are consumed
RespFired(st, k, h) == {[k |-> k, cb |-> x.cb, kind |-> "resp", h |-> h, good |-> TRUE] : x \in {y \in st.cbs : y.k = k /\ y.h = h}}
ResFired(st, k, h)  == {[k |-> k, cb |-> x.cb, kind |-> "res", h |-> h, good |-> TRUE] : x \in {y \in st.rcbs : y.k = k}}
Consume(st, k, h)   == [st EXCEPT !.cbs = {y \in @ : ~(y.k = k /\ y.h = h)}]
\* any datagram from p that references K1's unanswered request re-enables sending it
Answered(st, a) == IF a.ref # 0 /\ st.unans[a.p] = a.ref THEN [st EXCEPT !.unans[a.p] = 0] ELSE st

\* the function a payload carries ("limitp" = limit data with a partial filter: merged into the cache, same abstract value)
PlFn(pl) == IF pl = "limitp" THEN "limit" ELSE pl
RecvOut0(st, a) ==
    LET p == a.p  c == a.c  s == a.s
        err == { Outcome(st, OutTo(p, {ResErr(s, c)}), {}, "ok", Ideal) }
        nothing == { Outcome(st, NoOut, {}, "ok", Ideal) }
    IN
    IF ~RKnown(st, p, c) THEN nothing
    ELSE IF a.cls = "result" THEN
         \* never any result in answer to a result; the callbacks of the addressed feature fire
         IF s \in LocalNames /\ a.pl \in ResultPls
         THEN { WithCbf(Outcome(Consume(st, s, a.ref), NoOut, {}, "ok", Ideal), RespFired(st, s, a.ref) \cup ResFired(st, s, a.ref)) }
         ELSE nothing
    ELSE IF s \notin LocalNames THEN err
    ELSE IF a.cls = "read" THEN
         IF s = "NM" THEN
              IF a.pl = "usecase" THEN { Outcome(st, OutTo(p, {WithUcs(Reply("NM", c, a.pl, -1), st.ucs)}), {}, "ok", Ideal) }
              ELSE IF a.pl \in NMReadable THEN { Outcome(st, OutTo(p, {Reply("NM", c, a.pl, -1)}), {}, "ok", Ideal) }
              ELSE IF a.pl \in NMLists
              THEN { Outcome(st, OutTo(p, {ReplyList("NM", c, a.pl, ListEnts(st, p, a.pl))}), {}, "ok", Ideal) }
              ELSE err
         ELSE IF LF[s].role # "client" /\ a.pl \in TypeFns[LF[s].type]
         THEN { Outcome(st, OutTo(p, {Reply(s, c, a.pl, IF Cell(s, a.pl) \in Cells THEN st.data[Cell(s, a.pl)]
                                                     ELSE IF a.pl \in {"limit", "kv"} THEN 0 ELSE -1)}), {}, "ok", Ideal) }
         ELSE err
    ELSE IF a.cls \in {"reply", "notify"} THEN
         IF s = "NM" THEN
              \* the use cases a peer's node management announces are cached (under that feature only)
              IF a.pl = "usecase" THEN { Outcome([st EXCEPT !.rucs[p] = IF c = "nm" THEN a.v ELSE @],
                                                 OutTo(p, Ack(a, s, c)), {Ev("data", a.cls, p, "", c, "")}, "ok", Ideal) }
              ELSE err
         ELSE IF PlFn(a.pl) \in RemoteTypeFns(c)
         THEN { WithCbf(Outcome([(IF a.cls = "reply" THEN Consume(st, s, a.ref) ELSE st)
                                    EXCEPT !.rdata[p] = IF c = "s14" /\ PlFn(a.pl) = "limit" THEN a.v ELSE @,
                                           !.rucs[p] = IF c = "nm" /\ a.pl = "usecase" THEN a.v ELSE @],
                                OutTo(p, Ack(a, s, c)), {Ev("data", a.cls, p, "", c, s)}, "ok", Ideal),
                        IF a.cls = "reply" THEN RespFired(st, s, a.ref) ELSE {}) }
         ELSE err
    ELSE IF a.cls = "call" THEN
         IF s = "NM" /\ a.pl \in NMLists
         THEN { Outcome(st, OutTo(p, {ReplyList("NM", c, a.pl, ListEnts(st, p, a.pl))} \cup Ack(a, s, c)), {}, "ok", Ideal) }
         ELSE err
    ELSE \* write: the gate of C03 (no local function is writable through these payloads unless bound)
         IF a.pl \in DataFns
         THEN WriteOut(st, [a |-> "write", p |-> p, c |-> c, s |-> s, fn |-> a.pl, v |-> a.v, ack |-> a.ack, hdev |-> "own"])
         ELSE err

RecvOut(st, a) == {[o EXCEPT !.st = Answered(@, a)] : o \in RecvOut0(st, a)}

(* Requests and callbacks (C14).                                            *)
(*   lreq  [k, p]      k asks p.s14 for its limit data; returns the id      *)
(*   addcb [k, h, cb]  response callback cb on k for id h                   *)
(*   addrcb [k, cb]    result callback cb on k                              *)
HName(i) == "h" \o ToString(i)
LReqOut(st, a) ==
    IF ~RKnown(st, a.p, "s14") THEN { Outcome(st, NoOut, {}, "nofeature", Ideal) }
    ELSE IF st.unans[a.p] # 0 THEN { Outcome(st, NoOut, {}, HName(st.unans[a.p]), Ideal) }      \* withheld: identical request unanswered
    ELSE { Outcome([st EXCEPT !.nid = @ + 1, !.unans[a.p] = st.nid + 1], NoOut, {}, HName(st.nid + 1), Ideal) }
AddCbOut(st, a) ==
    IF [k |-> a.k, h |-> a.h, cb |-> a.cb] \in st.cbs THEN { Outcome(st, NoOut, {}, "err", Ideal) }   \* same callback twice: refused
    ELSE { Outcome([st EXCEPT !.cbs = @ \cup {[k |-> a.k, h |-> a.h, cb |-> a.cb]}], NoOut, {}, "ok", Ideal) }
\* (a result callback may be registered any number of times; registering it again makes it fire again - not generated)
AddRCbOut(st, a) == { Outcome([st EXCEPT !.rcbs = @ \cup {[k |-> a.k, cb |-> a.cb]}], NoOut, {}, "ok", Ideal) }

(* Use cases (C20): the registry is keyed by (entity, actor, name).  Every change is a data change of the node  *)
(* management feature and is notified to its subscribers with the complete registry.                          *)
UcKey(x) == <<x.e, x.actor, x.name>>
UcFanout(st, ucs) == [q \in Peers |-> {WithUcs(Notify("NM", x.c, "usecase", -1), ucs) : x \in {y \in st.subs : y.p = q /\ y.s = "NM"}}]
UcSet(st, ucs) == { Outcome([st EXCEPT !.ucs = ucs], UcFanout(st, ucs), {}, "ok", Ideal) }
AddUcOut(st, a) ==
    LET new == [e |-> a.e, actor |-> a.actor, name |-> a.name, ver |-> a.ver, av |-> a.av, sc |-> a.sc]
    IN UcSet(st, {x \in st.ucs : UcKey(x) # UcKey(new)} \cup {new})
RemUcOut(st, a) == UcSet(st, {x \in st.ucs : UcKey(x) # <<a.e, a.actor, a.name>>})
SetAvOut(st, a) == UcSet(st, {IF UcKey(x) = <<a.e, a.actor, a.name>> THEN [x EXCEPT !.av = a.av] ELSE x : x \in st.ucs})
RemAllOut(st, a) == UcSet(st, {x \in st.ucs : x.e # a.e})

---------------------------------------------------------------------------
(* Client side: a local client feature subscribes / binds to a remote      *)
(* server feature.  a = [a, k, p, r]                                        *)

LReqOK(st, a) == /\ Discovered(st, a.p)
                 /\ a.k \in LocalNames /\ LF[a.k].role # "server"
CEntry(k, p, r) == [k |-> k, p |-> p, r |-> r]

LSubOut(st, a) ==
    IF LReqOK(st, a)
    THEN { Outcome([st EXCEPT !.csub = @ \cup {CEntry(a.k, a.p, a.r)}], NoOut, {}, "ok", Ideal) }
    ELSE { Outcome(st, NoOut, {}, "err", Ideal) }
LBindOut(st, a) ==
    IF LReqOK(st, a)
    THEN { Outcome([st EXCEPT !.cbind = @ \cup {CEntry(a.k, a.p, a.r)}], NoOut, {}, "ok", Ideal) }
    ELSE { Outcome(st, NoOut, {}, "err", Ideal) }
LUnsubOut(st, a) ==
    IF Discovered(st, a.p)
    THEN { Outcome([st EXCEPT !.csub = @ \ {CEntry(a.k, a.p, a.r)}], NoOut, {}, "ok", Ideal) }
    ELSE { Outcome(st, NoOut, {}, "err", Ideal) }
LUnbindOut(st, a) ==
    IF Discovered(st, a.p)
    THEN { Outcome([st EXCEPT !.cbind = @ \ {CEntry(a.k, a.p, a.r)}], NoOut, {}, "ok", Ideal) }
    ELSE { Outcome(st, NoOut, {}, "err", Ideal) }

---------------------------------------------------------------------------
(* Fault at the SHIP boundary: a peer whose name starts with "m" is mute - its connection cannot be written to  *)
(* (no write handler), every datagram for it is lost at the sender.  Nothing else changes: its requests are      *)
(* processed, its registry entries exist, and what the stack sends to the OTHER peers must not depend on it.     *)
Mute == Peers \cap {"m1", "m2", "m3"}
Unmuted(o) == [o EXCEPT !.out = [q \in Peers |-> IF q \in Mute THEN {} ELSE o.out[q]]]

Outcomes0(st, a) ==
    CASE a.a = "connect"    -> ConnectOut(st, a)
      [] a.a = "discover"   -> DiscoverOut(st, a)
      [] a.a = "disconnect" -> DisconnectOut(st, a)
      [] a.a = "entrem"     -> EntRemOut(st, a)
      [] a.a = "entadd"     -> EntAddOut(st, a)
      [] a.a = "ann"        -> AnnOut(st, a)
      [] a.a = "sub"        -> SubOut(st, a)
      [] a.a = "unsub"      -> UnsubOut(st, a)
      [] a.a = "bind"       -> BindOut(st, a)
      [] a.a = "unbind"     -> UnbindOut(st, a)
      [] a.a \in {"listsubs", "listbinds"} -> ListOut(st, a)
      [] a.a = "write"      -> WriteOut(st, a)
      [] a.a = "setdata"    -> SetDataOut(st, a)
      [] a.a = "read"       -> RecvOut(st, [a |-> "recv", p |-> a.p, cls |-> "read", c |-> a.c, s |-> a.s, pl |-> a.fn, v |-> 0, ack |-> a.ack, ref |-> 0])
      [] a.a = "recv"       -> RecvOut(st, a)
      [] a.a = "adduc"      -> AddUcOut(st, a)
      [] a.a = "remuc"      -> RemUcOut(st, a)
      [] a.a = "setav"      -> SetAvOut(st, a)
      [] a.a = "remall"     -> RemAllOut(st, a)
      [] a.a = "lreq"       -> LReqOut(st, a)
      [] a.a = "addcb"      -> AddCbOut(st, a)
      [] a.a = "addrcb"     -> AddRCbOut(st, a)
      [] a.a = "lsub"       -> LSubOut(st, a)
      [] a.a = "lbind"      -> LBindOut(st, a)
      [] a.a = "lunsub"     -> LUnsubOut(st, a)
      [] a.a = "lunbind"    -> LUnbindOut(st, a)
Outcomes(st, a) == IF Mute = {} THEN Outcomes0(st, a) ELSE {Unmuted(o) : o \in Outcomes0(st, a)}

---------------------------------------------------------------------------
(* Input alphabet offered in state st (valid and invalid inputs alike)     *)

On(k, set) == IF k \in Acts THEN set ELSE {}
DiscP(st) == {p \in Peers : Discovered(st, p)}
R(k) == k \in Rich
\* (writes come with and without ackRequest everywhere: whether the writer asks for an acknowledgement must not change
\* what the write does - fan-out, events, error results)
Acks(k) == IF R(k) \/ k = "write" THEN BOOLEAN ELSE {TRUE}
DevVar(k) == IF R(k) THEN {"own", "omit"} ELSE {"own"}

\* client / server argument domains for registry calls
CliArgs(k) == IF R(k) THEN {"c11", "c12", "c13", "s14", "c21", "x19", "x91", "g15", "g16"}
              ELSE IF k \in Tiny THEN {"c11", "c12"} ELSE {"c11", "c12", "c21"}
SrvArgs(k) == IF R(k) THEN {"S1", "S2", "S3", "S4", "K1", "NM", "X19", "X91", "G1", "G2", "Z1"}
              ELSE IF k \in Tiny THEN {"S1", "S2"} ELSE {"S1", "S2", "S3"}
\* requested type: the server feature's own type, or (rich) a wrong one - a type nobody has, or the type of other
\* features of the catalogue (so that the client may be of the declared type while the server is not)
FtArgs(k, s) == LET own == IF s \in LocalNames THEN LF[s].type ELSE "LoadControl"
                IN IF R(k) THEN {own, "Measurement", "LoadControl", "DeviceConfiguration"} ELSE {own}

\* dev / sdev: device part of the client / server address given ("own") or omitted ("omit"):
\* SPINE 7.4.4 - an absent device part stands for the sender's resp. recipient's device
DevPairs(k) == IF R(k) THEN {<<"own", "own">>, <<"own", "omit">>, <<"omit", "own">>} ELSE {<<"own", "own">>}
RegCallsF(st, kind) ==
    UNION { UNION { {[a |-> kind, p |-> p, c |-> c, s |-> s, ft |-> ft, dev |-> dv[1], sdev |-> dv[2], ack |-> k] :
                        c \in CliArgs(kind), ft \in FtArgs(kind, s), dv \in DevPairs(kind), k \in Acks(kind)}
                    : s \in SrvArgs(kind) } : p \in DiscP(st) }
\* (rich deletes also name ANOTHER peer's device in the client address: such a delete addresses nothing the sender owns
\* and is refused - in particular it does not remove that peer's entry)
DelCallsF(st, kind) ==
    {[a |-> kind, p |-> p, c |-> c, s |-> s, dev |-> dv[1], sdev |-> dv[2], ack |-> k] :
        p \in DiscP(st), c \in CliArgs(kind), s \in SrvArgs(kind),
        dv \in DevPairs(kind) \cup (IF R(kind) THEN {<<"other", "own">>} ELSE {}), k \in Acks(kind)}

\* fel: the optional cmd "function" element: absent, naming the payload's function, or naming another one (ofn)
WriteArgs(st) ==
    {[a |-> "write", p |-> p, c |-> c, s |-> s, fn |-> fn, v |-> v, ack |-> k, fel |-> fe, ofn |-> IF fn = "limit" THEN "ldesc" ELSE "limit", hdev |-> hd] :
        p \in DiscP(st), c \in (IF R("write") THEN {"c11", "c12", "c13", "c21", "x19"} ELSE {"c11", "c12"}),
        s \in (IF R("write") THEN {"S1", "S2", "S3", "S4", "K1", "X19"} ELSE {"S1", "S2"}),
        fn \in {"limit", "ldesc", "kv"}, v \in Vals, k \in Acks("write"),
        fe \in (IF R("write") THEN {"none", "same", "other"} ELSE {"none"}),
        hd \in (IF R("write") THEN {"own", "omit"} ELSE {"own"})}
WriteArgsF(st) == {x \in WriteArgs(st) :
                     /\ IF x.s \in LocalNames THEN x.fn \in TypeFns[LF[x.s].type] ELSE x.fn = "limit"
                     /\ x.fel = "other" => x.fn \in {"limit", "ldesc"}}

\* announcements: per entity one option; items in the order 1, 1.1, 2 (partial notifications also reversed)
\* ("nofs": the entity announced without any feature; a partial notification of such entities carries no feature
\* information at all)
AnnOpts(kd) == IF "ann" \in Tiny THEN (IF kd = "partial" THEN {"absent", "full1", "removed"} ELSE {"absent", "full1"})
               ELSE IF kd = "partial" THEN {"absent", "full1", "sub2", "nofs", "removed"} ELSE {"absent", "full1", "full2", "sub2", "nofs"}
AnnItem(e, opt) == CASE opt = "full1"   -> [e |-> e, chg |-> "added", fs |-> CatFeats(e), v |-> 1]
                     [] opt = "nofs"    -> [e |-> e, chg |-> "added", fs |-> {}, v |-> 1]
                     [] opt = "full2"   -> [e |-> e, chg |-> "added", fs |-> CatFeats(e), v |-> 2]
                     [] opt = "sub2"    -> [e |-> e, chg |-> "added", fs |-> {CHOOSE f \in CatFeats(e) : TRUE}, v |-> 2]
                     [] opt = "removed" -> [e |-> e, chg |-> "removed", fs |-> {}, v |-> 0]
AnnSeq(o1, o2, o3) == (IF o1 = "absent" THEN << >> ELSE <<AnnItem("1", o1)>>)
                      \o (IF o2 = "absent" THEN << >> ELSE <<AnnItem("1.1", o2)>>)
                      \o (IF o3 = "absent" THEN << >> ELSE <<AnnItem("2", o3)>>)
AnnItemSeqs(kd) == {AnnSeq(o1, o2, o3) : o1 \in AnnOpts(kd), o2 \in AnnOpts(kd), o3 \in AnnOpts(kd)}
                   \cup (IF kd = "partial" THEN {Reverse(AnnSeq(o1, o2, o3)) : o1 \in AnnOpts(kd), o2 \in AnnOpts(kd), o3 \in AnnOpts(kd)} ELSE {})

Inputs(st) ==
    On("connect",    {[a |-> "connect", p |-> p] : p \in Peers \ st.conn})
    \cup On("discover", {[a |-> "discover", p |-> p, ents |-> es, ack |-> k] :
                           p \in st.conn, es \in (IF R("discover") THEN {{"1", "2"}, {"1"}} ELSE {{"1", "2"}}),
                           k \in (IF R("discover") THEN BOOLEAN ELSE {FALSE})})
    \cup On("disconnect", {[a |-> "disconnect", p |-> p] : p \in (IF R("disconnect") THEN Peers ELSE st.conn)})
    \cup On("entrem", {[a |-> "entrem", p |-> p, e |-> e, dev |-> d, ack |-> k] : p \in DiscP(st), e \in AnnEnts, d \in DevVar("entrem"), k \in Acks("entrem")})
    \cup On("entadd", {[a |-> "entadd", p |-> p, e |-> e, dev |-> d, ack |-> k] : p \in DiscP(st), e \in AnnEnts, d \in DevVar("entadd"), k \in Acks("entadd")})
    \cup On("ann",    UNION {{[a |-> "ann", p |-> p, kind |-> kd, items |-> it, dev |-> d, ack |-> k] :
                                  it \in AnnItemSeqs(kd), d \in DevVar("ann"), k \in Acks("ann")}
                               : p \in st.conn, kd \in {"reply", "partial", "full"}})
    \cup On("sub",    RegCallsF(st, "sub"))
    \* (the peer's node management may subscribe to ours before its discovery reply has been processed)
    \cup On("presub", {[a |-> "sub", p |-> p, c |-> "nm", s |-> "NM", ft |-> "NodeManagement", dev |-> d, sdev |-> "own", ack |-> TRUE] :
                          p \in st.conn \ DiscP(st), d \in {"own", "omit"}})
    \cup On("bind",   RegCallsF(st, "bind"))
    \cup On("unsub",  DelCallsF(st, "unsub"))
    \cup On("unbind", DelCallsF(st, "unbind"))
    \cup On("listsubs",  {[a |-> "listsubs",  p |-> p, ack |-> k] : p \in DiscP(st), k \in Acks("listsubs")})
    \cup On("listbinds", {[a |-> "listbinds", p |-> p, ack |-> k] : p \in DiscP(st), k \in Acks("listbinds")})
    \cup On("write",  WriteArgsF(st))
    \cup On("setdata", {[a |-> "setdata", s |-> CellS[c], fn |-> CellFn[c], v |-> v, how |-> h] : c \in Cells, v \in Vals,
                           h \in (IF R("setdata") THEN {"set", "upd", "updp"} ELSE {"set"})})
    \cup On("read",   {[a |-> "read", p |-> p, c |-> c, s |-> s, fn |-> fn, ack |-> k] :
                         p \in DiscP(st), c \in (IF R("read") THEN {"c11", "s14", "x19"} ELSE {"c11"}),
                         s \in (IF R("read") THEN {"S1", "S2", "S3", "S4", "K1", "DC", "Z1", "X19", "X91"} ELSE {"S1", "S2", "S4"}),
                         fn \in (IF R("read") THEN {"limit", "ldesc", "kv"} ELSE {"limit"}), k \in Acks("read")})
    \* classifier and payload are consistent: a result carries result data, a request does not (the rest is C05);
    \* discovery replies / notifications change the tree and are the inputs discover / entadd / entrem
    \* ddev: the device part of the destination address names the local device, is omitted, or (rich) names another device
    \* - the stack resolves the destination by entity and feature; whatever was given, a response names the local feature
    \* with the local device address as its source
    \cup On("recv",   {x \in {[a |-> "recv", p |-> p, cls |-> cls, c |-> c, s |-> sd, pl |-> pl, v |-> 1, ack |-> k, ref |-> 0, ddev |-> dd] :
                         p \in DiscP(st), cls \in {"read", "reply", "notify", "write", "call", "result"},
                         c \in (IF R("recv") THEN {"nm", "c11", "c13", "s14"} ELSE {"c11", "s14"}),
                         sd \in (IF R("recv") THEN {"NM", "DC", "S1", "S3", "S4", "K1", "Z1", "X19", "X91"} ELSE {"NM", "S1", "S4", "K1", "X19"}),
                         pl \in (IF R("recv") THEN {"limit", "ldesc", "kv", "mfr", "res0", "res1", "usecase", "subdata", "binddata", "destlist", "discovery"}
                                  ELSE {"limit", "kv", "res0", "res1", "usecase", "subdata"}),
                         k \in BOOLEAN, dd \in (IF R("recv") THEN {"own", "omit", "other"} ELSE {"own"})} :
                       /\ (x.ddev # "own" => x.s \in LocalNames)
                       \* (rich: a result is never answered whatever it carries; a request that carries result data stays outside)
                       /\ (IF R("recv") THEN (x.pl \in ResultPls => x.cls = "result") ELSE (x.cls = "result") = (x.pl \in ResultPls))
                       /\ ~(x.pl = "discovery" /\ x.cls \in {"reply", "notify"})})
    \* C14: requests, callback registrations, and replies / results from s14 or c11 to K1 / S1 / K2-less
    \cup On("lreq",   {[a |-> "lreq", k |-> "K1", p |-> p] : p \in {q \in DiscP(st) : st.nid < MaxReq \/ st.unans[q] # 0}})
    \cup On("addcb",  {[a |-> "addcb", k |-> k, h |-> h, cb |-> cb] : k \in {"K1", "S1"}, h \in 1..st.nid, cb \in {1, 2}})
    \cup On("addrcb", {x \in {[a |-> "addrcb", k |-> k, cb |-> cb] : k \in {"K1", "S1"}, cb \in {1, 2}} :
                          [k |-> x.k, cb |-> x.cb] \notin st.rcbs})
    \cup On("cbrecv", {x \in {[a |-> "recv", p |-> p, cls |-> cls, c |-> c, s |-> sd, pl |-> pl, v |-> v, ack |-> FALSE, ref |-> h] :
                                p \in DiscP(st), cls \in {"reply", "result"},
                                c \in (IF "cbrecv" \in Tiny THEN {"s14"} ELSE {"s14", "c11"}),
                                sd \in (IF "cbrecv" \in Tiny THEN {"K1"} ELSE {"K1", "S1"}),
                                \* ("limitp": the limit data with a partial filter - the callback gets the data received, not the merged cache)
                                pl \in (IF "cbrecv" \in Tiny THEN {"limit", "limitp", "kv", "res1"} ELSE {"limit", "limitp", "kv", "res0", "res1"}),
                                v \in Vals, h \in 0..st.nid} :
                          (x.cls = "result") = (x.pl \in ResultPls)})
    \* C20: use cases over 2 entities x 2 actors x 2 names (re-adding an existing name, removing unknown ones included)
    \cup On("adduc",  {[a |-> "adduc", e |-> e, actor |-> ac, name |-> n, ver |-> v, av |-> av, sc |-> sc] :
                         e \in UcEnts, ac \in UcActors, n \in UcNames, v \in (IF R("adduc") THEN {"1.0.0", "2.0.0"} ELSE {"1.0.0"}),
                         av \in BOOLEAN, sc \in (IF R("adduc") THEN {"1", "1,2", ""} ELSE {"1"})})       \* ("": no scenario given)
    \cup On("remuc",  {[a |-> "remuc", e |-> e, actor |-> ac, name |-> n] : e \in UcEnts, ac \in UcActors, n \in UcNames})
    \cup On("setav",  {[a |-> "setav", e |-> e, actor |-> ac, name |-> n, av |-> av] : e \in UcEnts, ac \in UcActors, n \in UcNames, av \in BOOLEAN})
    \cup On("remall", {[a |-> "remall", e |-> e] : e \in UcEnts})
    \cup On("readuc", {[a |-> "recv", p |-> p, cls |-> "read", c |-> "nm", s |-> "NM", pl |-> "usecase", v |-> 1, ack |-> FALSE, ref |-> 0] : p \in DiscP(st)})
    \cup On("lsub",   {[a |-> "lsub",   k |-> k, p |-> p, r |-> "s14"] : k \in (IF R("lsub") THEN {"K1", "S1"} ELSE {"K1"}), p \in (IF R("lsub") THEN Peers ELSE DiscP(st))})
    \cup On("lbind",  {[a |-> "lbind",  k |-> k, p |-> p, r |-> "s14"] : k \in (IF R("lbind") THEN {"K1", "S1"} ELSE {"K1"}), p \in (IF R("lbind") THEN Peers ELSE DiscP(st))})
    \cup On("lunsub", {[a |-> "lunsub", k |-> "K1", p |-> p, r |-> "s14"] : p \in (IF R("lunsub") THEN Peers ELSE DiscP(st))})
    \cup On("lunbind", {[a |-> "lunbind", k |-> "K1", p |-> p, r |-> "s14"] : p \in (IF R("lunbind") THEN Peers ELSE DiscP(st))})

---------------------------------------------------------------------------
(* The properties, as predicates over one step  (st, a, o)  and states.    *)

\* C09: at most one binding per server feature
AtMostOneBindingPerServer(st) == \A b1, b2 \in st.binds : b1.s = b2.s => b1 = b2
\* C08/C09: registry entries name features of known entities of connected peers (a re-announcement of an entity
\* with fewer features does not cancel the entries of the features it no longer lists - no property says it should)
RegistryWellFormed(st) ==
    \A e \in st.subs \cup st.binds : /\ e.p \in st.conn /\ RF[e.c].ent \in st.known[e.p]
                                       /\ LF[e.s].role \in {"server", "special"}
\* C10: nothing refers to a peer that is not connected or an entity that is not known
NoDangling(st) ==
    /\ \A e \in st.subs \cup st.binds : e.p \in st.conn /\ RF[e.c].ent \in st.known[e.p]
    \* (the client-side API does not check that the remote feature is announced; only the device must be known)
    /\ \A e \in st.csub \cup st.cbind : e.p \in st.conn

OutKinds(o, p, k) == {d \in o.out[p] : d.k = k}
Responses(o, p)   == OutKinds(o, p, "result") \cup OutKinds(o, p, "reply")

\* C01: at most one result per inbound datagram, addressed to its source, and only to the sender
InboundKinds == {"discover", "entrem", "entadd", "ann", "sub", "unsub", "bind", "unbind", "listsubs", "listbinds", "write", "read", "recv"}
ResponseDiscipline(st, a, o) ==
    a.a \in InboundKinds =>
        /\ \A q \in Peers \ {a.p} : Responses(o, q) = {}
        /\ Cardinality(OutKinds(o, a.p, "result")) <= 1
        /\ Cardinality(OutKinds(o, a.p, "reply")) <= 1
        /\ \A d \in OutKinds(o, a.p, "result") : ~d.ok => OutKinds(o, a.p, "reply") = {}

\* C01: never any result in answer to a result; a read is answered by a reply xor an error result
NoResultForResult(st, a, o) ==
    (a.a = "recv" /\ a.cls = "result") => \A q \in Peers : o.out[q] = {}
ReadReplyXorError(st, a, o) ==
    (a.a = "recv" /\ a.cls = "read" /\ RKnown(st, a.p, a.c)) =>
        Cardinality(OutKinds(o, a.p, "reply")) + Cardinality(OutKinds(o, a.p, "result")) = 1
\* C01: every response references the request, goes to its source and names the addressed feature
ResponseAddressing(st, a, o) ==
    a.a \in {"recv", "read", "write"} =>
        \A d \in Responses(o, a.p) : d.ref = "req" /\ d.dst = (IF a.a = "write" THEN WDst(a) ELSE a.c) /\ d.src = a.s

\* C14: callbacks fire at most once per step, only for the addressed feature and the referenced id, and only for an
\* accepted reply or a result; response callbacks are consumed
CallbacksExact(st, a, o) ==
    /\ \A f \in o.cbf : /\ a.a = "recv" /\ f.k = a.s /\ f.h = a.ref /\ a.cls \in {"reply", "result"}
                         /\ (f.kind = "resp" => [k |-> f.k, h |-> f.h, cb |-> f.cb] \in st.cbs /\ [k |-> f.k, h |-> f.h, cb |-> f.cb] \notin o.st.cbs)
                         /\ (f.kind = "res" => a.cls = "result" /\ [k |-> f.k, cb |-> f.cb] \in st.rcbs)
    /\ (a.a = "recv" /\ a.cls = "result" /\ a.pl \in ResultPls /\ a.s \in LocalNames /\ RKnown(st, a.p, a.c)) =>
            \A x \in st.rcbs : x.k = a.s => [k |-> x.k, cb |-> x.cb, kind |-> "res", h |-> a.ref, good |-> TRUE] \in o.cbf
    /\ o.st.cbs \subseteq st.cbs \cup (IF a.a = "addcb" THEN {[k |-> a.k, h |-> a.h, cb |-> a.cb]} ELSE {})

\* C20: operations on one entity never affect another entity's use cases; one record per (entity, actor, name)
UseCaseIsolation(st, a, o) ==
    a.a \in {"adduc", "remuc", "setav", "remall"} =>
        /\ {x \in o.st.ucs : x.e # a.e} = {x \in st.ucs : x.e # a.e}
        /\ (a.a = "adduc" => \E x \in o.st.ucs : UcKey(x) = <<a.e, a.actor, a.name>> /\ x.ver = a.ver /\ x.av = a.av /\ x.sc = a.sc)
        /\ (a.a = "remuc" => ~\E x \in o.st.ucs : UcKey(x) = <<a.e, a.actor, a.name>>)
        /\ (a.a = "remall" => ~\E x \in o.st.ucs : x.e = a.e)
UseCaseKeysUnique(st) == \A x, y \in st.ucs : UcKey(x) = UcKey(y) => x = y

\* C03: a write changes data / notifies / publishes only through the gate
WriteEffectOnlyIfGate(st, a, o) ==
    (a.a = "write" /\ ~WriteGate(st, a)) =>
        /\ o.st.data = st.data
        /\ \A q \in Peers : OutKinds(o, q, "notify") = {}
        /\ o.ev = {}
        /\ (RKnown(st, a.p, a.c) => o.out[a.p] = {ResErr(a.s, WDst(a))})
WriteAppliedIfGate(st, a, o) ==
    (a.a = "write" /\ WriteGate(st, a) /\ RKnown(st, a.p, a.c) /\ Cell(a.s, a.fn) \in Cells) =>
        /\ o.st.data[Cell(a.s, a.fn)] = a.v
        /\ \A d \in OutKinds(o, a.p, "result") : d.ok

\* C08: fan-out reaches exactly the subscribers
FanoutExact(st, a, o) ==
    a.a \in {"setdata", "write"} =>
        \A q \in Peers : OutKinds(o, q, "notify") \subseteq
              {Notify(a.s, x.c, a.fn, a.v) : x \in {y \in st.subs : y.p = q /\ y.s = a.s}}
\* C08/C09: a delete removes exactly the addressed entry
\* (a delete whose client address names another peer's device addresses no entry of the sender: nothing is removed)
DeleteExact(st, a, o) ==
    LET addressed == IF a.dev = "other" THEN {} ELSE {Entry(a.p, a.c, a.s)} IN
    /\ a.a = "unsub"  => /\ o.st.subs = st.subs \ addressed
                         /\ o.st.binds = st.binds
    /\ a.a = "unbind" => /\ o.st.binds = st.binds \ addressed
                         /\ o.st.subs = st.subs

\* C06: an announcement changes the tree of that peer only; every entity that appeared / disappeared has its event;
\* registry entries and client references disappear exactly with their entity
AnnouncementExact(st, a, o) ==
    a.a \in {"ann", "entadd", "entrem", "discover"} =>
        LET p == a.p
            appeared == o.st.known[p] \ st.known[p]
            vanished == st.known[p] \ o.st.known[p]
            mentionedRemoved == IF a.a = "ann" THEN {a.items[i].e : i \in {j \in DOMAIN a.items : a.items[j].chg = "removed"}}
                                ELSE IF a.a = "entrem" THEN {a.e} ELSE {}
        IN /\ \A e \in appeared : Ev("ent", "add", p, e, "", "") \in o.ev
           /\ \A e \in vanished : Ev("ent", "remove", p, e, "", "") \in o.ev
           /\ \A x \in st.subs \ o.st.subs   : x.p = p /\ (RF[x.c].ent \in vanished \/ RF[x.c].ent \in mentionedRemoved)
           /\ \A x \in st.binds \ o.st.binds : x.p = p /\ (RF[x.c].ent \in vanished \/ RF[x.c].ent \in mentionedRemoved)
           /\ \A x \in st.csub \ o.st.csub   : x.p = p /\ (RF[x.r].ent \in vanished \/ RF[x.r].ent \in mentionedRemoved)
           /\ \A x \in st.cbind \ o.st.cbind : x.p = p /\ (RF[x.r].ent \in vanished \/ RF[x.r].ent \in mentionedRemoved)
           /\ o.st.subs \subseteq st.subs /\ o.st.binds \subseteq st.binds

\* C10: teardown of p leaves every other peer's state untouched
OtherPeers(set, p) == {e \in set : e.p # p}
TeardownIsolated(st, a, o) ==
    a.a \in {"disconnect", "entrem", "ann"} =>
        /\ OtherPeers(o.st.subs, a.p)  = OtherPeers(st.subs, a.p)
        /\ OtherPeers(o.st.binds, a.p) = OtherPeers(st.binds, a.p)
        /\ OtherPeers(o.st.csub, a.p)  = OtherPeers(st.csub, a.p)
        /\ OtherPeers(o.st.cbind, a.p) = OtherPeers(st.cbind, a.p)
        /\ \A q \in Peers \ {a.p} : o.st.known[q] = st.known[q] /\ o.st.feats[q] = st.feats[q] /\ o.out[q] = {}
        /\ o.st.data = st.data
        /\ \A e \in o.ev : e.p = a.p
DisconnectComplete(st, a, o) ==
    a.a = "disconnect" =>
        /\ OfPeer(o.st.subs, a.p) = {} /\ OfPeer(o.st.binds, a.p) = {}
        /\ OfPeer(o.st.csub, a.p) = {} /\ OfPeer(o.st.cbind, a.p) = {}
        /\ a.p \notin o.st.conn
        /\ o.out[a.p] = {}
\* C10: one removal event per registry entry that disappears, in every step
RemovalEventsExact(st, a, o) ==
    /\ {e \in o.ev : e.t = "sub"  /\ e.chg = "remove"} = RemEventsSt(st, "sub",  st.subs \ o.st.subs)
    /\ {e \in o.ev : e.t = "bind" /\ e.chg = "remove"} = RemEventsSt(st, "bind", st.binds \ o.st.binds)

StepProps(st, a, o) ==
    /\ ResponseDiscipline(st, a, o)
    /\ NoResultForResult(st, a, o)
    /\ ReadReplyXorError(st, a, o)
    /\ ResponseAddressing(st, a, o)
    /\ CallbacksExact(st, a, o)
    /\ UseCaseIsolation(st, a, o)
    /\ WriteEffectOnlyIfGate(st, a, o)
    /\ WriteAppliedIfGate(st, a, o)
    /\ FanoutExact(st, a, o)
    /\ DeleteExact(st, a, o)
    /\ AnnouncementExact(st, a, o)
    /\ TeardownIsolated(st, a, o)
    /\ DisconnectComplete(st, a, o)
    /\ RemovalEventsExact(st, a, o)
StateProps(st) ==
    /\ TypeOK(st)
    /\ AtMostOneBindingPerServer(st)
    /\ RegistryWellFormed(st)
    /\ NoDangling(st)
    /\ UseCaseKeysUnique(st)
=============================================================================
