----------------------------- MODULE SuiteTrace -----------------------------
(***************************************************************************)
(* Trace validation of executions that were NOT produced by a generator of *)
(* these specifications: the repository's own test suite (and, as a second *)
(* source, the harness' replay processes), run with the state tracer of    *)
(* spine/verif_trace.go (build tag verif, VERIF_SUITE_TRACE).  The tracer  *)
(* writes one line per change of a subscription / binding registry (the    *)
(* complete registry, read under the registry's lock at the point of the   *)
(* change), per message counter drawn by a sender and per heartbeat        *)
(* refresh, with the identity of the object.                               *)
(*                                                                         *)
(* The monitor follows every object and requires of every line what the    *)
(* registries of SpineCore and the counters of Sender guarantee in every   *)
(* reachable state / step:                                                 *)
(*   bind  insert: exactly one entry more, its id never seen before on     *)
(*                 that manager, no second binding on a server feature     *)
(*                 (AtMostOneBindingPerServer, C09)                        *)
(*         remove: a subset of the registry before (nothing appears, C09 / *)
(*                 C10), ids untouched                                     *)
(*   sub   insert: exactly one entry more, fresh id, the pair (client,     *)
(*                 server) not subscribed before (C08)                     *)
(*         remove: a subset                                                *)
(*   ctr   a counter is drawn once per sender (C13)                        *)
(*   hb    the counters of one heartbeat stream strictly increase (C16)    *)
(* Entries are followed by id, features by object identity.               *)
(***************************************************************************)
EXTENDS Naturals, Sequences, FiniteSets, TLC, Json, IOUtils

TraceFile == IF "VERIF_TRACE" \in DOMAIN IOEnv THEN IOEnv.VERIF_TRACE ELSE "trace.ndjson"
Trace == ndJsonDeserialize(TraceFile)
SetOfSeq(s) == {s[i] : i \in DOMAIN s}

VARIABLES l,      \* next line
          reg,    \* object -> registry last recorded (set of [id, c, s])
          ids,    \* object -> ids ever seen in its registry
          ctrs,   \* sender -> counters drawn
          hbl,    \* heartbeat stream -> last counter
          mark,   \* the last marker line (the harness marks the start of every behaviour)
          bad
vars == <<l, reg, ids, ctrs, hbl, mark, bad>>

Get(f, o, dflt) == IF o \in DOMAIN f THEN f[o] ELSE dflt
Put(f, o, v) == (o :> v) @@ f
\* an entry is identified by its id; cid / sid are the identities of the client / server feature OBJECTS (the address
\* of a feature may change while it is registered: the device part of a peer's address is filled in when its discovery
\* reply arrives; hand-built fixtures of the repository's tests give different objects equal addresses)
Entries(e) == {[id |-> x.id, cid |-> x.cid, sid |-> x.sid] : x \in SetOfSeq(e.entries)}
Ids(E) == {x.id : x \in E}

RegDefects(e) ==
    LET E == Entries(e)
        old == Get(reg, e.obj, {})
        seen == Get(ids, e.obj, {})
        new == Ids(E) \ Ids(old)
    IN (IF Cardinality(E) = Len(e.entries) THEN {} ELSE {"an entry is listed twice"})
       \cup (IF \A x, y \in E : x.id = y.id => x = y THEN {} ELSE {"two entries with one id"})
       \cup (IF e.ev = "bind" /\ \E x, y \in E : x # y /\ x.sid = y.sid
             THEN {"a server feature with more than one binding"} ELSE {})
       \cup (IF e.ev = "sub" /\ \E x, y \in E : x # y /\ x.sid = y.sid /\ x.cid = y.cid
             THEN {"a pair subscribed twice"} ELSE {})
       \cup (IF \A x \in E : \A y \in old : x.id = y.id => x = y THEN {} ELSE {"an entry changed its client or server feature"})
       \cup (IF e.op = "insert"
             THEN (IF Cardinality(new) = 1 /\ Ids(old) \subseteq Ids(E) THEN {} ELSE {"an insertion does not add exactly one entry to the registry"})
                  \cup (IF new \cap seen = {} THEN {} ELSE {"an id is handed out again"})
             ELSE (IF Ids(E) \subseteq Ids(old) THEN {} ELSE {"a removal adds entries"}))

Defects(e) ==
    CASE e.ev \in {"bind", "sub"} -> RegDefects(e)
      [] e.ev = "ctr" -> IF e.ctr \in Get(ctrs, e.obj, {}) THEN {"a message counter is drawn twice by one sender"}
                         ELSE IF e.ctr = 0 THEN {"message counter 0"} ELSE {}
      [] e.ev = "hb" -> IF e.obj \in DOMAIN hbl /\ e.ctr <= hbl[e.obj] THEN {"heartbeat counter of a stream does not increase"} ELSE {}
      [] OTHER -> {}

Init == l = 1 /\ reg = << >> /\ ids = << >> /\ ctrs = << >> /\ hbl = << >> /\ mark = "" /\ bad = << >>
Next ==
    /\ l <= Len(Trace)
    /\ l' = l + 1
    /\ LET e == Trace[l] IN
       IF e.ev = "reset"
       THEN reg' = << >> /\ ids' = << >> /\ ctrs' = << >> /\ hbl' = << >> /\ bad' = bad /\ mark' = ""
       ELSE /\ mark' = IF e.ev = "mark" THEN e.op ELSE mark
            /\ bad' = IF Defects(e) = {} THEN bad ELSE Append(bad, [line |-> l, ev |-> e.ev, op |-> e.op, obj |-> e.obj, mark |-> mark, why |-> Defects(e)])
            /\ reg' = IF e.ev \in {"bind", "sub"} THEN Put(reg, e.obj, Entries(e)) ELSE reg
            /\ ids' = IF e.ev \in {"bind", "sub"} THEN Put(ids, e.obj, Get(ids, e.obj, {}) \cup {x.id : x \in Entries(e)}) ELSE ids
            /\ ctrs' = IF e.ev = "ctr" THEN Put(ctrs, e.obj, Get(ctrs, e.obj, {}) \cup {e.ctr}) ELSE ctrs
            /\ hbl' = IF e.ev = "hb" THEN Put(hbl, e.obj, e.ctr) ELSE hbl
Spec == Init /\ [][Next]_vars
Final == l > Len(Trace) => PrintT(<<"BAD", ToJson(bad)>>) /\ PrintT(<<"LINES", Len(Trace)>>)
Done == TLCGet("stats").diameter - 1 = Len(Trace)
=============================================================================
