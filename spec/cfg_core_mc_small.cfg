SPECIFICATION Spec
CONSTANTS
  Peers = {"p1", "p2"}
  KnownDeviations = {}
  Acts = {"connect","discover","disconnect","entrem","entadd","sub","unsub","bind","unbind","write","setdata","lsub","lunsub"}
  MaxVal = 1
  Rich = {}
  MaxLen = 6
  Prefix <- PrefixNone
VIEW View
INVARIANTS InvTypeOK InvOneBinding InvWellFormed InvNoDangling
PROPERTY StepProperty
CHECK_DEADLOCK FALSE
