"""C12 (and the pending-approval clause of C10): spec/Approval.tla. TLC proves the contract on the atomic model, enumerates
every interleaving of the code-shaped (split) model; the schedules are forced onto the real FeatureLocal through gates
(verdict after its lookup, timer callback at its first statement); ApprovalTrace validates every outcome."""
import json, os, time, random
from vlib import *
import core

ASSUME = [
    "writes come from one bound peer to one server feature (a server feature has one binding, and the approval state is per feature)",
    "the timeout of a write either elapses before the write is decided (expires, always so if a callback stays silent) or never; when it has elapsed its callback may run at any point",
    "a verdict call takes effect at one point between its start and its end (linearizability); the outcome observed must be that of some such linearization",
    "verdicts are delivered by the harness through ApproveOrDenyWrite with the message the callback was given; 1..3 callbacks, 1..2 pending writes",
]


def gen(writes, ncb, atomic, timeout=900, epochs=1):
    cfg = cfg_text("Spec", {"Writes": set(writes), "NCb": ncb, "Atomic": atomic, "TallyReset": False, "Epochs": epochs, "StaleTally": False}, invariants=["EmitInv"])
    code, out = run_tlc("Approval.tla", cfg, timeout=timeout, workers=1, heap="8g")
    if not tlc_ok(code, out):
        raise Inconclusive("Approval schedule enumeration failed:\n" + out[-2000:])
    return printed(out, "S"), tlc_stats(out)


def execute(prop, tier, seed, sc, topo, disconnect=False):
    quick = tier == "quick"
    rnd = random.Random(seed)
    states = 0
    # the contract: atomic verdicts and timeouts give every write exactly one, correct outcome
    for writes, ncb in [(["w1"], 1), (["w1"], 2), (["w1"], 3), (["w1", "w2"], 1), (["w1", "w2"], 2)]:
        code, out = run_tlc("Approval.tla", cfg_text("Spec", {"Writes": set(writes), "NCb": ncb, "Atomic": True, "TallyReset": False, "Epochs": 1, "StaleTally": False}, invariants=["Safe"]),
                            timeout=900, workers=NCPU, heap="8g")
        if not tlc_ok(code, out):
            raise Inconclusive("the atomic Approval model violates the contract:\n" + out[-2000:])
        states += tlc_stats(out)["distinct"]
    # liveness: under weak fairness of the verdict steps and of the timer callbacks every write is eventually decided
    for writes, ncb, atomic in [(["w1", "w2"], 2, True), (["w1"], 2, False), (["w1", "w2"], 1, False)] + ([] if quick else [(["w1", "w2"], 2, False)]):
        code, out = run_tlc("Approval.tla", cfg_text("LiveSpec", {"Writes": set(writes), "NCb": ncb, "Atomic": atomic, "TallyReset": False, "Epochs": 1, "StaleTally": False},
                                                     properties=["EveryWriteDecided"]), timeout=1800, workers=NCPU, heap="8g")
        if not tlc_ok(code, out):
            raise Inconclusive("the Approval model is not live (a write that is never decided):\n" + out[-2000:])
        states += tlc_stats(out)["distinct"]
    scheds = []
    for writes, ncb, cap in [(["w1"], 1, None), (["w1"], 2, None), (["w1", "w2"], 1, 400 if quick else None), (["w1"], 3, 300 if quick else 3000)]:
        s, st = gen(writes, ncb, False)
        states += st["distinct"]
        if cap and len(s) > cap:
            s = rnd.sample(s, cap)
        scheds += s
    # two writes x two callbacks: the atomic interleavings, every verdict call run to completion (tally independence)
    s, st = gen(["w1", "w2"], 2, True)
    states += st["distinct"]
    s = rnd.sample(s, 300 if quick else 4000)
    for x in s:
        x["sched"] = [n for n in x["sched"] for _ in ((0, 1) if n.startswith("v:") else (0,))]
    scheds += s
    for x in scheds:
        x["disconnect"] = -1
        x["late"] = {}
        x["splittimer"] = 0
        x["splitverdict"] = 0
    # late expiry: the timeout elapses in real time after some verdicts were delivered and before the write is decided
    late = []
    for x in scheds:
        for w, ex in x["expires"].items():
            if not ex or ("t:" + w) not in x["sched"]:
                continue
            before = x["sched"][:x["sched"].index("t:" + w)]
            vs = {n for n in before if n.startswith("v:%s:" % w) and before.count(n) == (2 if x["sched"].count(n) == 2 else 1)}
            verd = [x["verdict"][w][int(n.split(":")[2]) - 1] for n in vs]
            if vs and "deny" not in verd and len(verd) < len(x["verdict"][w]) and all(v == "approve" for v in verd):
                late.append(dict(x, late={w: True}))
    scheds += rnd.sample(late, min(len(late), 60 if quick else 600))
    # split timer: the steps that follow a timer callback in the schedule run while the callback is inside its send
    split = [dict(x, splittimer=k) for x in scheds for k in (1, 2) if not x["late"] and any(n.startswith("t:") and i + k < len(x["sched"]) + 1 and i + 1 < len(x["sched"]) for i, n in enumerate(x["sched"]))]
    scheds += rnd.sample(split, min(len(split), 150 if quick else 1500))
    # split verdict: a deciding verdict is parked once more behind its timer stop (holding the decision lock) while the next
    # one or two steps - a timer callback among them - run
    splitv = [dict(x, splitverdict=k) for x in scheds for k in (1, 2) if not x["late"] and not x.get("splittimer")
              and any(n.startswith("t:") for n in x["sched"][1:]) and any(n.startswith("v:") for n in x["sched"][:-1])]
    scheds += rnd.sample(splitv, min(len(splitv), 150 if quick else 1500))
    for x in scheds:
        x.setdefault("otherdisc", -1)
    # an uninvolved second peer disconnects while the writes are pending: the outcomes do not depend on it - in particular a
    # write nobody decides still gets its timeout result (silent callbacks, the timeout elapses after the disconnect)
    other = [dict(x, otherdisc=rnd.choice([0, len(x["sched"]) // 2])) for x in rnd.sample(scheds, min(len(scheds), 80 if quick else 800))
             if not x["late"] and not x["splittimer"] and not x["splitverdict"]]
    for ncb in (1, 2):
        other.append({"verdict": {"w1": ["silent"] * ncb}, "expires": {"w1": True}, "sched": ["t:w1"], "unsafe": False, "disconnect": -1,
                      "late": {"w1": True}, "splittimer": 0, "splitverdict": 0, "otherdisc": 0})
    scheds += other
    if disconnect:
        d = [dict(x, disconnect=rnd.choice([0, len(x["sched"]) // 2])) for x in scheds if any(x["expires"].values())]
        scheds = rnd.sample(d, min(len(d), 150 if quick else 1500))
    else:
        # the connection is removed while a deciding verdict is parked behind its timer stop (it holds the decision lock):
        # teardown and verdict both complete, nothing is written afterwards (judged as a teardown schedule)
        held = [x for x in scheds if x.get("splitverdict")]
        for x in rnd.sample(held, min(len(held), 40 if quick else 400)):
            vpos = [i for i, n in enumerate(x["sched"]) if n.startswith("v:")]
            scheds.append(dict(x, disconnect=min(len(x["sched"]), rnd.choice(vpos) + 1)))
    # second epoch (spec: action Reconnect): the connection is removed at a point where no verdict call is in flight, the
    # peer connects, binds and writes again with the message counters of the first epoch; the approvals counted before
    # the teardown must not count for the new write
    ep, st = gen(["w1"], 2, False, epochs=2)
    states += st["distinct"]
    ep = [x for x in ep if x["past"]]
    some = [x for x in ep if any(n.startswith("v:") for n in x["past"][0]["sched"])]
    ep = rnd.sample(some, min(len(some), 120 if quick else 1500)) + rnd.sample(ep, min(len(ep), 30 if quick else 500))
    for x in ep:
        p1 = x["past"][0]
        scheds.append({"verdict": p1["verdict"], "expires": p1["expires"], "sched": p1["sched"], "unsafe": False, "disconnect": len(p1["sched"]),
                       "late": {}, "splittimer": 0, "splitverdict": 0, "otherdisc": -1,
                       "round2": {"verdict": x["verdict"], "expires": x["expires"], "sched": x["sched"], "unsafe": x["unsafe"], "disconnect": -1,
                                  "late": {}, "splittimer": 0, "splitverdict": 0, "otherdisc": -1}})
    # the contract over two epochs (TLC): Safe holds when the teardown forgets the tally, and is violated when it does not
    code, out = run_tlc("Approval.tla", cfg_text("Spec", {"Writes": {"w1"}, "NCb": 2, "Atomic": True, "TallyReset": False, "Epochs": 2, "StaleTally": False}, invariants=["Safe"]),
                        timeout=900, workers=NCPU, heap="8g")
    if not tlc_ok(code, out):
        raise Inconclusive("the atomic two-epoch Approval model violates the contract:\n" + out[-2000:])
    states += tlc_stats(out)["distinct"]
    code, out = run_tlc("Approval.tla", cfg_text("Spec", {"Writes": {"w1"}, "NCb": 2, "Atomic": True, "TallyReset": False, "Epochs": 2, "StaleTally": True}, invariants=["Safe"]),
                        timeout=900, workers=NCPU, heap="8g")
    if "is violated" not in out:
        raise Inconclusive("the two-epoch Approval model is not sensitive to a tally that survives the teardown (vacuous?)")
    open(sc.path("topo.json"), "w").write(topo)
    shards = shard([json.dumps(x) for x in scheds], NCPU)
    files = []
    for i, sh in enumerate(shards):
        bf, tf = sc.path("ap_in%d" % i), sc.path("ap_tr%d" % i)
        open(bf, "w").write("\n".join(sh) + "\n")
        files.append((bf, tf))
    pmap(lambda f: run_harness(["approval-replay", "-topo", sc.path("topo.json"), "-in", f[0], "-out", f[1]], timeout=3000), files)

    def val(f):
        code, out = run_tlc("ApprovalTrace.tla", cfg_text("Spec", {}, invariants=["Final"]), timeout=1800, env={"VERIF_TRACE": f[1]}, light=True, heap="3g")
        if not tlc_ok(code, out):
            raise Inconclusive("approval trace validation failed:\n" + out[-2000:])
        b = printed(out, "RACEBAD")[0]
        return (list(b.values()) if isinstance(b, dict) else b), printed(out, "RACESTAT")[0]
    res = pmap(val, files)
    bad, realised, unsafe_realised, lines = [], 0, 0, 0
    for (bf, tf), (b, stt) in zip(files, res):
        tl = None
        for x in b:
            tl = tl or open(tf).read().splitlines()
            x["observed"] = json.loads(tl[x["line"] - 1])
            bad.append(x)
        realised += stt["realised"]; unsafe_realised += stt["unsaferealised"]; lines += stt["lines"]
    if realised == 0:
        raise Inconclusive("no approval schedule could be realised (hooks removed?)")
    viol, seen = 0, set()
    for x in bad:
        key = tuple(sorted(x["defects"]))
        if key in seen:
            continue
        seen.add(key)
        viol += 1
        o = x["observed"]
        path = write_replay(prop, "approval_%d" % viol, {"property": prop, "config": o["origin"] if o.get("origin") else dict({k: o[k] for k in ("verdict", "expires", "sched", "disconnect")}, splittimer=o.get("splittimer", 0), splitverdict=o.get("splitverdict", 0), otherdisc=o.get("otherdisc", -1), late=o.get("late", {})),
                            "defects": x["defects"], "observed": {k: o[k] for k in ("outcomes", "presented", "data", "afterdisc", "panic", "realised")},
                            "how": "harness approval-replay"})
        print("VIOLATION property=%s replay=%s" % (prop, path))
        print("  verdicts %s expires %s schedule %s -> outcomes %s: %s" % (json.dumps(o["verdict"]), json.dumps(o["expires"]), o["sched"], json.dumps(o["outcomes"]), x["defects"]))
    sample = json.loads(open(files[0][1]).readline())
    cov = {"schedules": len(scheds), "schedules_realised": realised, "attack_schedules_realised": unsafe_realised, "schedules_unrealisable": lines - realised,
           "race_model_states": states, "bad": len(bad),
           "sample": {k: sample[k] for k in ("verdict", "expires", "sched", "outcomes", "presented", "data")}}
    log("[%s] approval schedules: %d, realised %d (%d attack schedules), %d bad" % (prop, len(scheds), realised, unsafe_realised, len(bad)))
    return {"viol": viol, "cov": cov}


def run(prop, tier, seed, replay=None):
    t0 = time.time()
    build_harness()
    sc = Scratch()
    try:
        topo = core.gen_bfs(core.consts(acts=["bind"]), 0, "PrefixNone", 300)[0]
        if replay:
            r = json.load(open(replay))
            open(sc.path("topo.json"), "w").write(topo)
            open(sc.path("in"), "w").write(json.dumps(dict(r["config"], unsafe=False)) + "\n")
            run_harness(["approval-replay", "-topo", sc.path("topo.json"), "-in", sc.path("in"), "-out", sc.path("tr")])
            code, out = run_tlc("ApprovalTrace.tla", cfg_text("Spec", {}, invariants=["Final"]), timeout=600, env={"VERIF_TRACE": sc.path("tr")}, light=True)
            b = printed(out, "RACEBAD")[0]
            if b:
                print("VIOLATION property=%s replay=%s" % (prop, replay))
                print("  " + json.dumps(b)[:300])
                return 1
            print("replay: accepted")
            return 0
        clear_replays(prop)
        r = execute(prop, tier, seed, sc, topo)
        c = r["cov"]
        cov = {"states": c["race_model_states"], "transitions": c["race_model_states"], "traces_validated_against_impl": c["schedules"],
               "evaluations": c["schedules"], "distinct_nontrivial": c["schedules_realised"],
               "rule": "every interleaving of the code-shaped Approval model (verdict = lookup step + decision step, timer callback) for 1 write x 1..3 callbacks and 2 writes x 1 callback "
                       "(sampled in the quick tier), plus sampled serial-verdict interleavings of 2 writes x 2 callbacks, over all verdict vectors {approve, deny, silent} and "
                       "timeout choices; each forced onto real goroutines through gates; distinct = schedules realised on the code",
               "samples": [c["sample"]], "forced_schedules": c,
               "checker_cmd": "tlc Approval.tla (Atomic: INVARIANT Safe; split: enumeration); tlc ApprovalTrace.tla"}
        write_evidence(prop, tier, seed, "model_checking", cov, ASSUME, time.time() - t0, r["viol"])
        log("[%s] %s: %.1fs" % (prop, tier, time.time() - t0))
        return 1 if r["viol"] else 0
    finally:
        sc.close()
