"""C18: spec/CmdAlgebra.tla validates what the real build -> encode -> decode -> recognise chain did for every function x shape."""
import json, os, time
from vlib import *

ASSUME = [
    "the selector / elements field of a function is identified by the naming convention of the wire format (json names <function>Selectors, <element>Elements), independently of the eebus tags under test; "
    "where a list function and its element function share one elements field, the list function owns it",
    "functions = the union of CreateFunctionData over all 32 feature types (127 functions)",
    "value-level round trip: reflectively generated values (every pointer field set, depth 1..4, one element per list) of every payload, selector and elements type; compared structurally with nil = empty list; "
    "time periods are generated with absolute start and end time (a relative end time may legitimately be re-expressed); verdict formed by the driver (oracle: driver), validated by the monitor",
    "finite and exhaustive over functions x shapes; the code is stateless (level claimed: exploration)",
]


def run(prop, tier, seed, replay=None):
    t0 = time.time()
    build_harness()
    sc = Scratch()
    try:
        clear_replays(prop)
        known = open_deviations(prop)
        tf = sc.path("cmd.ndjson")
        stats = json.loads(run_harness(["cmd-run", "-out", tf], timeout=1800))
        cfg = cfg_text("TraceSpec", {"KnownDeviations": set(known.keys())}, invariants=["Final"], postcondition="Done")
        code, out = run_tlc("CmdAlgebra.tla", cfg, timeout=1800, workers=1, heap="4g", env={"VERIF_TRACE": tf}, light=True)
        if not tlc_ok(code, out):
            raise Inconclusive("CmdAlgebra validation failed:\n" + out[-2000:])
        bad, lines = printed(out, "BAD")[0], printed(out, "LINES")[0]
        tl = open(tf).read().splitlines()
        # binding self-test
        k = next(i for i, l in enumerate(tl) if '"shape":"read+sel"' in l)
        e = json.loads(tl[k]); e["rfn"] = "alarmListDataX"
        open(sc.path("st"), "w").write(json.dumps(e) + "\n")
        code, out = run_tlc("CmdAlgebra.tla", cfg, timeout=300, workers=1, heap="2g", env={"VERIF_TRACE": sc.path("st")}, light=True)
        if not (tlc_ok(code, out) and printed(out, "BAD")[0]):
            raise Inconclusive("binding self-test failed")
        viol, kf = 0, {}
        for b in bad:
            e = json.loads(tl[b["line"] - 1])
            name = None
            if e["t"] == "cmd" and e["fn"] == "setpointDescriptionListData" and "elem" in e["shape"] and e["pelem"] == 0 and e["delem"] == 0 and e["panic"] == "":
                name = "SetpointDescriptionElementsTagEmpty"
            if name and name in known:
                kf.setdefault(name, []).append(e)
                continue
            viol += 1
            if viol <= 8:
                path = write_replay(prop, "%s_%s" % (e.get("fn", "x"), e.get("shape", e["t"]).replace("+", "-").replace("&", "_")), {"property": prop, "case": e, "why": b["why"]})
                print("VIOLATION property=%s replay=%s" % (prop, path))
                print("  %s %s: %s %s" % (e.get("fn"), e.get("shape"), b["why"], e.get("panic", "")[:120]))
        for name, es in kf.items():
            print("KNOWN-FINDING: property=%s %s: %s (%d commands)" % (prop, name, known[name]["identified_by"], len(es)))
        ncmd = sum(1 for l in tl if '"t":"cmd"' in l)
        cov = {"evaluations": lines, "distinct_nontrivial": lines - len(bad),
               "rule": "all %d functions registered for the 32 feature types x the 13 command shapes (9 single filters, 4 combinations of a delete filter with a partial selector) that the function has a selector / elements type for (%d commands), plus value round trips of generated "
                       "values of every payload / selector / elements type at 4 depths; every line is a distinct case" % (stats["functions"], ncmd),
               "samples": [json.loads(tl[k]), json.loads(tl[-1])], "exhaustive": True, "bad": len(bad),
               "deviations_used": {k: len(v) for k, v in kf.items()},
               "checker_cmd": "harness cmd-run | tlc CmdAlgebra.tla"}
        write_evidence(prop, tier, seed, "exploration", cov, ASSUME, time.time() - t0, viol)
        log("[%s] %s: %d lines (%d commands) validated, %d bad, %.1fs" % (prop, tier, lines, ncmd, len(bad), time.time() - t0))
        return 1 if viol else 0
    finally:
        sc.close()
