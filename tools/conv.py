"""C19: spec/Conversions.tla validates what the real conversion functions returned (integer arithmetic in TLC)."""
import json, os, time
from vlib import *

ASSUME = [
    "decimals k*10^-d are given as the float64 nearest to the decimal (what a caller writing 0.29 passes)",
    "TLC integers are 32 bit: the exact check is done in TLA+ for the dense range |k| <= kmax, d <= 4; magnitudes up to 10^14, long durations and instants are compared in the driver with exact "
    "rational / integer arithmetic and only the verdict is validated (oracle: driver, stated in the evidence)",
    "'within 0.0001 of itself' for a float64 v means within 0.0001 + half the float64 spacing at v (a float64 stands for every real in that interval)",
    "the relative end time is sampled away from the half-second boundary (the conversion rounds against the clock)",
    "the conversion code has no state: inputs are enumerated, there are no histories (level claimed: exploration)",
]


def run(prop, tier, seed, replay=None):
    t0 = time.time()
    build_harness()
    sc = Scratch()
    try:
        clear_replays(prop)
        known = open_deviations(prop)
        quick = tier == "quick"
        kmax = 20000 if quick else 120000
        n = NCPU
        files = [sc.path("conv%d" % i) for i in range(n)]
        stats = pmap(lambda i: json.loads(run_harness(["conv-run", "-seed", str(seed), "-kmax", str(kmax), "-shard", str(i), "-shards", str(n), "-out", files[i]], timeout=3000)), list(range(n)))
        cfg = cfg_text("TraceSpec", {"KnownDeviations": set(known.keys())}, invariants=["Final"], postcondition="Done")

        def val(f):
            code, out = run_tlc("Conversions.tla", cfg, timeout=3000, workers=1, heap="4g", env={"VERIF_TRACE": f}, light=True)
            if not tlc_ok(code, out):
                raise Inconclusive("conversion trace validation failed:\n" + out[-2000:])
            return printed(out, "BAD")[0], printed(out, "NDEV")[0] + 1000000 * printed(out, "NBIG")[0], printed(out, "LINES")[0]
        res = pmap(val, files)
        # binding self-test
        l0 = json.loads(open(files[1]).readline()); l0["number"] += 1
        open(sc.path("st"), "w").write(json.dumps(l0) + "\n")
        code, out = run_tlc("Conversions.tla", cfg, timeout=300, workers=1, heap="2g", env={"VERIF_TRACE": sc.path("st")}, light=True)
        if not (tlc_ok(code, out) and printed(out, "BAD")[0]):
            raise Inconclusive("binding self-test failed")
        viol, seen, lines, ndev, nbad = 0, set(), 0, 0, 0
        firstdev = None
        nbig = 0
        for f, (bad, nd, n_) in zip(files, res):
            nbig += nd // 1000000
            nd = nd % 1000000
            lines += n_; ndev += nd
            tl = None
            for b in bad:
                nbad += 1
                if b["why"] in seen:
                    continue
                seen.add(b["why"])
                viol += 1
                tl = tl or open(f).read().splitlines()
                e = json.loads(tl[b["line"] - 1])
                path = write_replay(prop, "conv_%d" % viol, {"property": prop, "case": e, "why": b["why"]})
                print("VIOLATION property=%s replay=%s" % (prop, path))
                print("  %s: %s" % (json.dumps(e), b["why"]))
            if nd and firstdev is None:
                for x in open(f):
                    e = json.loads(x)
                    if e["t"] == "dur" and not ((e["fits"] and e["back"] == e["units"]) or (not e["fits"] and e["eq"])):
                        firstdev = e
                        break
        if ndev:
            f = known.get("LongDurationsCalendarApproximated")
            print("KNOWN-FINDING: property=%s LongDurationsCalendarApproximated: %s (%d durations, first: %s)" % (prop, f["identified_by"], ndev, json.dumps(firstdev)))
        if nbig:
            f = known.get("LargeMagnitudeProductInexact")
            ex = next(json.loads(x) for x in open(files[0]) if '"big"' in x and '"within":false' in x)
            print("KNOWN-FINDING: property=%s LargeMagnitudeProductInexact: %s (%d values, e.g. %r)" % (prop, f["identified_by"], nbig, ex["v"]))
        samples = [json.loads(x) for x in open(files[1]).read().splitlines()[:2]] + [json.loads(open(files[0]).read().splitlines()[-1])]
        cov = {"evaluations": lines, "distinct_nontrivial": lines - ndev - nbad - nbig,
               "rule": "all decimals k*10^-d, |k| <= %d, 0 <= d <= 4 (exhaustive, validated in TLA+ integer arithmetic); 8500 random and fixed magnitudes 10^-7..10^14; durations n*100ms dense to 2 h "
                       "and geometric to 10 years; 20000 instants over years 1..9999; 300 relative end times; every line is one distinct input" % kmax,
               "samples": samples, "exhaustive": True, "oracle": {"dec": "TLA+ (Conversions.ScaledEq)", "big/dur(long)/inst": "driver (exact arithmetic), verdict validated"},
               "deviations_used": dict(({"LongDurationsCalendarApproximated": ndev} if ndev else {}), **({"LargeMagnitudeProductInexact": nbig} if nbig else {})), "bad": nbad,
               "checker_cmd": "harness conv-run | tlc Conversions.tla"}
        write_evidence(prop, tier, seed, "exploration", cov, ASSUME, time.time() - t0, viol)
        log("[%s] %s: %d conversions validated, %d bad, %d known deviations, %.1fs" % (prop, tier, lines, nbad, ndev, time.time() - t0))
        return 1 if viol else 0
    finally:
        sc.close()
