"""Checks decided through spec/SpineCore.tla: exhaustive TLC check of the design, TLC-generated
behaviours (BFS transition cover + random simulation) replayed on the real code, and TLC
trace validation of what the code did (CoreTrace monitor)."""
import json, os, time, random
from vlib import *

ALL_RICH = ["sub", "bind", "unsub", "unbind", "write", "read", "entrem", "entadd", "discover", "disconnect",
            "lsub", "lbind", "lunsub", "lunbind", "listsubs", "listbinds"]
ALL_COMPS = ["out", "ev", "ret", "conn", "known", "subs", "binds", "csub", "cbind", "data",
             "panic", "dupout", "dupev", "ids", "resolve", "tree", "cbf", "reqs", "dupcb", "ucs", "hasuc", "late", "ucsnap", "announce"]

COMP_MEANING = {
    "out": "replies/results/notifications written per connection", "ev": "events published", "ret": "API return",
    "conn": "connected devices", "known": "remote entity tree", "subs": "subscription registry", "binds": "binding registry",
    "csub": "client-side subscription bookkeeping", "cbind": "client-side binding bookkeeping", "data": "local function data",
    "panic": "no panic", "dupout": "no duplicate datagram", "dupev": "no duplicate event", "ids": "registry ids distinct",
    "resolve": "device resolvable by SKI/address iff connected", "late": "nothing written to a connection after the call had returned", "ucsnap": "use-case data sets handed out earlier unchanged", "announce": "announced operations = configured operations"}


def consts(peers=("p1", "p2"), acts=(), rich=(), maxval=1, devs=(), ghost=0, tiny=(), maxreq=3):
    return {"Peers": set(peers), "KnownDeviations": set(devs), "Acts": set(acts), "MaxVal": maxval, "Rich": set(rich), "GhostCap": ghost,
            "Tiny": set(tiny), "MaxReq": maxreq}


def mc_run(c, maxlen, prefix, timeout, workers=NCPU):
    cfg = cfg_text("Spec", dict(c, MaxLen=maxlen), subst={"Prefix": prefix}, view="View",
                   invariants=["InvTypeOK", "InvOneBinding", "InvWellFormed", "InvNoDangling"], properties=["StepProperty", "RegistryRefines"])
    code, out = run_tlc("CoreMC.tla", cfg, timeout=timeout, workers=workers, heap="8g")
    st = tlc_stats(out)
    if not tlc_ok(code, out) or not st:
        # the design itself violates a property: a defect of the specification, not of the code
        raise Inconclusive("exhaustive check of the specification failed:\n" + out[-3000:])
    return st


def gen_bfs(c, maxlen, prefix, timeout, view="View"):
    # view None: the history is part of the state, i.e. the full tree of input sequences is enumerated
    cfg = cfg_text("Spec", dict(c, MaxLen=maxlen), subst={"Prefix": prefix}, view=view, action_constraints=["Emit" if view else "EmitLeaf"])
    code, out = run_tlc("CoreMC.tla", cfg, timeout=timeout, workers=1, heap="8g")
    if not tlc_ok(code, out):
        raise Inconclusive("generator run failed:\n" + out[-3000:])
    topo = printed_raw(out, "T")
    return topo[0], printed_raw(out, "B"), tlc_stats(out)


def gen_sim(c, maxlen, prefix, num, seed, timeout):
    c = dict(c, Acts=set(c["Acts"]) | {"flush"})
    cfg = cfg_text("Spec", dict(c, MaxLen=maxlen), subst={"Prefix": prefix})
    code, out = run_tlc("CoreMC.tla", cfg, timeout=timeout, workers=1, heap="4g",
                        extra=["-simulate", "num=%d" % num, "-depth", str(maxlen + 12), "-seed", str(seed)])
    beh = printed_raw(out, "B")
    if not beh:
        raise Inconclusive("simulation produced no behaviours:\n" + out[-2000:])
    return beh


SUITE_TRACE_ON = False   # set by execute() for the properties that have an event kind in suite.KINDS


def replay_and_validate(sc, topo, behs, c, checked, tag, timeout=900):
    """behs: list of JSON strings (one behaviour each). Returns (bad, devs, lines, nsteps, tracefiles)."""
    open(sc.path("topo.json"), "w").write(topo)
    shards = shard(behs, NCPU)
    files = []
    for i, sh in enumerate(shards):
        bf = sc.path("%s_beh_%d.ndjson" % (tag, i))
        open(bf, "w").write("\n".join(sh) + "\n")
        files.append((bf, sc.path("%s_trace_%d.ndjson" % (tag, i))))

    def rep(f):
        # (the state tracer of spine/verif_trace.go writes the registries as they are at their hook points: suite.py)
        return json.loads(run_harness(["core-replay", "-topo", sc.path("topo.json"), "-in", f[0], "-out", f[1]], timeout=timeout,
                                      env={"VERIF_SUITE_TRACE": f[1] + ".st"} if SUITE_TRACE_ON and files.index(f) % 4 == 0 else None))
    stats = pmap(rep, files)
    if SUITE_TRACE_ON:
        import glob, suite
        for f in files:
            for stf in glob.glob(f[1] + ".st.*"):
                suite.HARNESS_TRACES.append((stf, f[0]))
    nsteps = sum(s["steps"] for s in stats)
    log("replayed %d steps on the code" % nsteps)
    cfg = cfg_text("TraceSpec", dict(c, Checked=set(checked)), invariants=["Final"], postcondition="Done")

    def val(f):
        code, out = run_tlc("CoreTrace.tla", cfg, timeout=timeout, workers=1, heap="3g", env={"VERIF_TRACE": f[1]}, light=True)
        if not tlc_ok(code, out):
            raise Inconclusive("trace validation run failed on %s:\n%s" % (f[1], out[-3000:]))
        b, d, n = printed(out, "BAD"), printed(out, "DEVS"), printed(out, "LINES")
        if len(b) != 1 or len(n) != 1:
            raise Inconclusive("trace validation printed no verdict for %s" % f[1])
        return b[0], d[0], n[0]
    res = pmap(val, files)
    bad, devs, lines = [], {}, 0
    for (bf, tf), (b, d, n) in zip(files, res):
        for x in b:
            x["trace"] = tf
            bad.append(x)
        if isinstance(d, dict):
            for k, v in d.items():
                if k not in devs:
                    devs[k] = {"n": 0, "first": None}
                devs[k]["n"] += v["n"]
                if devs[k]["first"] is None:
                    devs[k]["first"] = behaviour_of(tf, v["first"])
        lines += n
    return bad, devs, lines, nsteps, [f[1] for f in files]


def behaviour_of(tracefile, line):
    """The behaviour (list of inputs) that contains trace line `line` (1-based), and the step index in it."""
    cur, hit = [], None
    with open(tracefile) as f:
        for i, l in enumerate(f, 1):
            e = json.loads(l)
            if e["a"].get("a") == "reset":
                if hit is not None:
                    break
                cur = []
                continue
            cur.append(e)
            if i == line:
                hit = len(cur) - 1
    return {"inputs": [e["a"] for e in cur], "step": hit, "observed": cur[hit] if hit is not None else None}


def trace_metrics(tracefiles, sample_n=3):
    distinct, samples, total = set(), [], 0
    for tf in tracefiles:
        prev = None
        with open(tf) as f:
            for l in f:
                e = json.loads(l)
                if e["a"].get("a") == "reset":
                    prev = None
                    continue
                total += 1
                st = e["st"]
                changed = prev is None or any(st[k] != prev[k] for k in st)
                nontriv = changed or any(e["out"][p] for p in e["out"]) or bool(e["ev"])
                if nontriv:
                    pre = json.dumps({k: prev[k] for k in ("conn", "subs", "binds", "csub", "cbind")} if prev else None, sort_keys=True)
                    distinct.add(hashlib.sha1((json.dumps(e["a"], sort_keys=True) + pre).encode()).hexdigest())
                    if len(samples) < sample_n and len(e["a"]) > 2:
                        samples.append({"input": e["a"], "out": e["out"], "ev": e["ev"], "ret": e["ret"]})
                prev = st
    return total, len(distinct), samples


def selftest(sc, topo, behs, c, checked):
    """Demonstrate the binding: corrupt one recorded field of a real trace and require rejection at that line."""
    open(sc.path("topo.json"), "w").write(topo)
    bf, tf = sc.path("st_beh.ndjson"), sc.path("st_trace.ndjson")
    open(bf, "w").write("\n".join(behs[:40]) + "\n")
    run_harness(["core-replay", "-topo", sc.path("topo.json"), "-in", bf, "-out", tf])
    lines = open(tf).read().splitlines()
    target = None
    for i, l in enumerate(lines):
        e = json.loads(l)
        if e["a"].get("a") in ("sub", "bind") and e["st"]["subs"] + e["st"]["binds"]:
            target = i
    if target is None:
        for i, l in enumerate(lines):
            e = json.loads(l)
            if e["a"].get("a") not in ("reset", None) and "st" in e and e["st"]["conn"]:
                target = i
    if target is None:
        return {"done": False}
    # the self-test needs a trace the monitor accepts: if the code under test already deviates on these behaviours the
    # main run reports that (a violation takes precedence; a failing self-test on a rejected trace says nothing)
    cfg0 = cfg_text("TraceSpec", dict(c, Checked=set(checked)), invariants=["Final"], postcondition="Done")
    code0, out0 = run_tlc("CoreTrace.tla", cfg0, timeout=300, workers=1, heap="2g", env={"VERIF_TRACE": tf})
    bad0 = printed(out0, "BAD")
    if not tlc_ok(code0, out0) or not bad0 or bad0[0]:
        return {"done": False, "skipped": "the trace chosen for the self-test is itself rejected by the monitor"}
    e = json.loads(lines[target])
    comp = None
    for k in ("binds", "subs"):
        if k in checked and e["st"][k]:
            e["st"][k] = e["st"][k][:-1]
            e["st"][k[:-1] + "ids"] = e["st"][k[:-1] + "ids"][:-1]
            comp = k
            break
    if comp is None:
        if "conn" in checked and e["st"]["conn"]:
            e["st"]["conn"] = e["st"]["conn"][:-1]
            comp = "conn"
        elif "data" in checked:
            k0 = sorted(e["st"]["data"])[0]
            e["st"]["data"][k0] += 1
            comp = "data"
        elif "reqs" in checked and "cbf" not in checked:
            e["st"]["nid"] += 1
            comp = "reqs"
        elif "ucs" in checked:
            e["st"]["ucs"] = e["st"]["ucs"] + [{"e": "2", "actor": "EV", "name": "ucZ", "ver": "9", "av": True, "sc": "1"}]
            comp = "ucs"
        elif "cbf" in checked:
            e["cbf"] = e["cbf"] + [{"k": "K1", "cb": 1, "kind": "resp", "h": 0, "good": True}]
            comp = "cbf"
        elif "known" in checked:
            p0 = sorted(e["st"]["known"])[0]
            e["st"]["known"][p0] = e["st"]["known"][p0] + ["2"] if "2" not in e["st"]["known"][p0] else [x for x in e["st"]["known"][p0] if x != "2"]
            comp = "known"
        elif "ev" in checked:
            e["ev"] = e["ev"] + [{"t": "dev", "chg": "add", "p": "p1", "e": "", "c": "", "s": ""}]
            comp = "ev"
        else:
            raise Inconclusive("binding self-test: no corruptible component among " + str(checked))
    lines[target] = json.dumps(e)
    open(tf, "w").write("\n".join(lines) + "\n")
    cfg = cfg_text("TraceSpec", dict(c, Checked=set(checked)), invariants=["Final"], postcondition="Done")
    code, out = run_tlc("CoreTrace.tla", cfg, timeout=300, workers=1, heap="2g", env={"VERIF_TRACE": tf})
    bad = printed(out, "BAD")
    ok = tlc_ok(code, out) and bad and any(b["line"] == target + 1 and comp in b["comps"] for b in bad[0])
    if not ok:
        raise Inconclusive("binding self-test failed: a corrupted trace line (%s at line %d) was not rejected" % (comp, target + 1))
    return {"done": True, "corrupted_component": comp, "line": target + 1, "rejected": True}


def run(prop, tier, seed, P, replay=None):
    """P: property profile (dict). Returns exit code."""
    t0 = time.time()
    if replay:
        rj = json.load(open(replay))
        if "config" in rj:        # a forced approval schedule
            import approval
            return approval.run(prop, tier, seed, replay)
        if "topo" not in rj:      # schedules / probes: re-run the part that produced it
            print("replay: %s is reproduced by re-running the check part that wrote it (%s)" % (replay, rj.get("how", "forced schedules / probes")))
            r = execute(prop, tier, seed, P)
            return 1 if r["viol"] else 0
    r = execute(prop, tier, seed, P, replay)
    if replay:
        return r
    write_evidence(prop, tier, seed, "model_checking", r["cov"], P["assumptions"], time.time() - t0, r["viol"])
    return 1 if r["viol"] else 0


def execute(prop, tier, seed, P, replay=None, clear=True):
    """Runs the SpineCore pipeline for a profile; prints VIOLATION / KNOWN-FINDING lines; returns {"viol", "cov"} (or an exit code for a replay)."""
    t0 = time.time()
    build_harness()
    sc = Scratch()
    global SUITE_TRACE_ON
    import suite
    SUITE_TRACE_ON = prop in suite.KINDS and not replay
    del suite.HARNESS_TRACES[:]
    try:
        known = open_deviations(prop)
        c_trace = consts(peers=P.get("peers", ("p1", "p2")), rich=ALL_RICH, maxval=3, devs=known.keys())
        checked = P["checked"]
        if replay:
            r = json.load(open(replay))
            topo = r["topo"]
            c_trace = dict(c_trace, Peers=set(json.loads(topo)["peers"]))
            bad, devs, lines, nsteps, tfs = replay_and_validate(sc, topo, [json.dumps(r["inputs"])], c_trace, checked, "replay")
            for b in bad:
                print("VIOLATION property=%s replay=%s" % (prop, replay))
                print("  step %d %s: components %s disagree with the specification" % (b["line"] - 1, json.dumps(b["a"]), b["comps"]))
            if not bad:
                print("replay: every step accepted by the specification")
            return 1 if bad else 0
        T = P[tier]
        if clear:
            clear_replays(prop)
        # 1. design-level exhaustive check, 2. behaviours from TLC (all TLC runs side by side)
        def job(j):
            kind, g = j
            if kind == "mc":
                st = mc_run(consts(peers=g.get("peers", ("p1", "p2")), acts=g["acts"], rich=g.get("rich", ()), maxval=g.get("maxval", 1),
                                   tiny=g.get("tiny", ()), maxreq=g.get("maxreq", 2)),
                            g["maxlen"], g.get("prefix", "PrefixNone"), timeout=T.get("mc_timeout", 900), workers=1)  # one worker: strict breadth-first order, so the bounded exploration under the VIEW (and its counts) is the same in every run
                log("[%s] spec check: %d distinct states, %d transitions" % (prop, st["distinct"], st["generated"]))
                return st
            if kind == "gen":
                c = consts(peers=g.get("peers", ("p1", "p2")), acts=g["acts"], rich=g.get("rich", ()), maxval=g.get("maxval", 1), ghost=g.get("ghost", 0), tiny=g.get("tiny", ()), maxreq=g.get("maxreq", 2))
                tp, b, st = gen_bfs(c, g["maxlen"], g.get("prefix", "PrefixNone"), timeout=T.get("gen_timeout", 900), view=g.get("view", "View"))
                log("[%s] generator %s maxlen %d view %s: %d behaviours" % (prop, g["acts"], g["maxlen"], g.get("view", "View"), len(b)))
                return tp, b
            c = consts(peers=g.get("peers", ("p1", "p2")), acts=g["acts"], rich=g.get("rich", ()), maxval=g.get("maxval", 2), tiny=g.get("tiny", ()),
                       maxreq=g.get("maxreq", 3))
            return None, gen_sim(c, g["maxlen"], g.get("prefix", "PrefixNone"), g["num"], seed + 1, timeout=T.get("gen_timeout", 900))
        jobs = [("mc", m) for m in T["mc"]] + [("gen", g) for g in T["gen"]] + [("sim", g) for g in T.get("sim", [])]
        fault_gens = T.get("faults", [])
        jobs += [("gen", g) for g in fault_gens]
        res = pmap(job, jobs, workers=8)
        fault_res = res[len(res) - len(fault_gens):] if fault_gens else []
        jobs, res = jobs[:len(jobs) - len(fault_gens)], res[:len(res) - len(fault_gens)]
        mcs = [r for (k, _), r in zip(jobs, res) if k == "mc"]
        groups = [r[1] for (k, _), r in zip(jobs, res) if k != "mc"]
        # the system under test has the peers of the profile (a generator may use fewer of them)
        topo = max((r[0] for (k, _), r in zip(jobs, res) if k == "gen"), key=lambda t: len(json.loads(t)["peers"]))
        gen_trans = nbfs = sum(len(r[1]) for (k, _), r in zip(jobs, res) if k == "gen")
        # cap: stratified - small generators are kept whole, the budget left is shared by the large ones
        cap = T.get("cap")
        if cap and sum(len(g) for g in groups) > cap:
            rnd = random.Random(seed)
            left, out = cap, []
            order = sorted(range(len(groups)), key=lambda i: len(groups[i]))
            for n, i in enumerate(order):
                share = left // (len(order) - n)
                g = groups[i] if len(groups[i]) <= share else rnd.sample(groups[i], share)
                left -= len(g)
                out.append((i, g))
            groups = [g for _, g in sorted(out)]
        behs = [b for g in groups for b in g]
        log("[%s] %d behaviours (%d from BFS transition cover)" % (prop, len(behs), nbfs))
        st_res = selftest(sc, topo, behs, c_trace, checked)
        log("[%s] binding self-test done" % prop)
        # 3. replay on the code, 4. validate
        bad, devs, lines, nsteps, tfs = replay_and_validate(sc, topo, behs, c_trace, checked, "main")
        topo_of = {tf: topo for tf in tfs}
        nfault = 0
        for gi, (g, (ftopo, fb)) in enumerate(zip(fault_gens, fault_res)):
            # behaviours with a faulty (mute) peer: a system of their own
            fcap = g.get("cap", 6000)
            if len(fb) > fcap:
                fb = random.Random(seed + gi).sample(fb, fcap)
            b2, d2, l2, n2, tf2 = replay_and_validate(sc, ftopo, fb, dict(c_trace, Peers=set(g["peers"])), checked, "fault%d" % gi)
            bad += b2
            lines += l2
            nsteps += n2
            nfault += len(fb)
            for k, v in d2.items():
                if k not in devs:
                    devs[k] = v
                else:
                    devs[k]["n"] += v["n"]
            for tf in tf2:
                topo_of[tf] = ftopo
        total, distinct, samples = trace_metrics(tfs)
        viol = 0
        seen = set()
        for b in bad:
            key = (b["a"].get("a"), tuple(sorted(b["comps"])))
            if key in seen:
                continue
            seen.add(key)
            viol += 1
            beh = behaviour_of(b["trace"], b["line"])
            path = write_replay(prop, "%s_%s" % (b["a"].get("a"), "-".join(sorted(b["comps"]))),
                                {"property": prop, "topo": topo_of[b["trace"]], "inputs": beh["inputs"], "failing_step": beh["step"],
                                 "components": b["comps"], "observed": beh["observed"],
                                 "meaning": {k: COMP_MEANING.get(k, k) for k in b["comps"]}})
            print("VIOLATION property=%s replay=%s" % (prop, path))
            print("  input %s: %s disagree with every outcome the specification allows" % (json.dumps(b["a"]), b["comps"]))
        for name, d in devs.items():
            f = known.get(name)
            if f:
                print("KNOWN-FINDING: property=%s %s: %s (%d steps, e.g. %s)" % (prop, name, f["identified_by"], d["n"],
                      json.dumps(d["first"]["inputs"][d["first"]["step"]]) if d["first"] else ""))
            else:
                viol += 1
                print("VIOLATION property=%s replay=none  (deviation %s used but not listed)" % (prop, name))
        cov = {"states": sum(m["distinct"] for m in mcs), "transitions": sum(m["generated"] for m in mcs),
               "traces_validated_against_impl": len(behs) + nfault, "behaviours_with_mute_peer": nfault, "evaluations": nsteps, "distinct_nontrivial": distinct,
               "rule": "behaviours = shortest input sequence per transition of the TLC state graph (BFS with VIEW) plus seeded TLC -simulate runs; "
                       "each executed on a fresh real DeviceLocal with in-process peers; a step is non-trivial if it changed the projected state or "
                       "produced a datagram or event; distinct = distinct (input, registry pre-state) pairs among those",
               "samples": samples, "exhaustive": False, "trace_lines": lines, "bfs_transitions": gen_trans,
               "checked_components": checked, "bad_steps": len(bad), "deviations_used": {k: v["n"] for k, v in devs.items()},
               "binding_selftest": st_res,
               "checker_cmd": "tlc CoreMC.tla (INVARIANTS InvTypeOK InvOneBinding InvWellFormed InvNoDangling, PROPERTY StepProperty); tlc CoreTrace.tla (monitor)"}
        if P.get("approval"):
            # the results a write pending approval gets (exactly one, whatever the verdicts and the timeout do)
            import approval
            ar = approval.execute(prop, tier, seed, sc, topo)
            viol += ar["viol"]
            cov["write_approval_results"] = ar["cov"]
            cov["traces_validated_against_impl"] += ar["cov"]["schedules"]
        if P.get("approval_disconnect"):
            import approval
            ar = approval.execute(prop, tier, seed, sc, topo, disconnect=True)
            viol += ar["viol"]
            cov["pending_approval_teardown"] = ar["cov"]
            cov["traces_validated_against_impl"] += ar["cov"]["schedules"]
        if P.get("pair_probes"):
            import pairs
            pr = pairs.execute(prop, tier, seed, sc, topo, kinds="" if P["pair_probes"] is True else P["pair_probes"])
            viol += pr["viol"]
            cov["pair_probes"] = pr["cov"]
            cov["traces_validated_against_impl"] += pr["cov"]["pair_probes"]
        if prop == "C09" and not replay:
            # the invariant for every number of peers, features and steps: TLAPS proof of spec/RegistryProof.tla, which the
            # registry component of SpineCore refines (RegistryRefines, checked by TLC in the runs above)
            cov["unbounded_proof"] = run_tlapm("RegistryProof.tla")
        if P.get("write_results"):
            import listdata
            wr = listdata.write_results_part(prop, tier, seed, sc)
            viol += wr["viol"]
            cov["write_results_data_layer"] = wr["cov"]
            cov["traces_validated_against_impl"] += wr["cov"]["cases"]
        import suite
        if prop in suite.KINDS and not replay:
            sr = suite.execute(prop, sc, suite.HARNESS_TRACES)
            viol += sr["viol"]
            cov["suite_trace"] = sr["cov"]
        if P.get("race"):
            import races
            rr = races.execute(prop, tier, sc, topo)
            viol += rr["viol"]
            cov["forced_schedules"] = rr["cov"]
            cov["traces_validated_against_impl"] += rr["cov"]["schedules"]
        log("[%s] %s: %d steps on the code, %d trace lines validated, %d bad, %.1fs" % (prop, tier, nsteps, lines, len(bad), time.time() - t0))
        return {"viol": viol, "cov": cov}
    finally:
        sc.close()
