"""C15: spec/EventBus.tla - generated histories with re-entrant handler bodies on the real event bus + free-running rounds."""
import json, os, time
from vlib import *
import core

ASSUME = [
    "a core-level handler that publishes would block on the bus itself; the property does not require that to work (only the stack registers core handlers and its handler does not publish): core bodies only (un)subscribe",
    "the effects of the application handlers' bodies of one event commute in the configurations used (they run concurrently)",
    "'core handlers have finished before any application handler runs' is observed through sequence numbers taken inside the handlers; the core handlers yield and sleep 0.2 ms so that an application handler started too early is seen",
    "handlers c1..c3 at core level (through the verif export), a1..a3 at application level; the bus is process-global, each check process owns it",
    "the stack's own internal handler is observed through its effects (SpineCore: after a discovery reply the local node management subscribes to the peer's) over all connect / discover / disconnect histories of two peers",
]
# the stack's own internal handler (DeviceLocal, core level) is on the bus whenever a device is connected: after a discovery
# reply it subscribes to the peer's node management and asks for its use cases - through every connect / disconnect history
CORE_PART = {
    "checked": ["csub", "ev", "conn", "known", "panic", "dupev", "late"],
    "assumptions": [],
    "quick": {"mc": [{"acts": ["connect", "discover", "disconnect"], "maxlen": 6}],
              # full history trees (a reconnection ends in an abstract state seen before, the bus registration is hidden state)
              "gen": [{"acts": ["connect", "discover", "disconnect"], "maxlen": 6, "view": None},
                      {"acts": ["connect", "discover", "disconnect", "lsub"], "maxlen": 6, "peers": ["p1"], "view": None}],
              "sim": [], "cap": 8000},
    "thorough": {"mc": [{"acts": ["connect", "discover", "disconnect"], "maxlen": 8}],
                 "gen": [{"acts": ["connect", "discover", "disconnect"], "maxlen": 8, "view": None},
                         {"acts": ["connect", "discover", "disconnect", "lsub", "entrem"], "maxlen": 6}],
                 "sim": [], "cap": 80000},
}
BODIES = [
    {},
    {"c1": ["unsubself"], "a1": ["unsub", "a2"]},
    {"a1": ["publish"], "c2": ["sub", "a3"]},
    {"c1": ["unsub", "c2"], "c2": ["sub", "c3"], "a3": ["unsubself"]},
    {"c2": ["unsubself"], "c1": ["sub", "c3"], "a2": ["publish"]},
    {"a1": ["waitfor", "a2"], "a2": ["waitfor", "a3"], "a3": ["waitfor", "a1"]},
    # one handler OBJECT registered at both levels (as c3 and as a3): two registrations, two deliveries, the core one first
    {"_twins": ["c3", "a3"], "c1": ["unsub", "c3"], "a1": ["unsub", "a3"]},
]


def tla_body(b):
    def one(v):
        if not v:
            return '"none"'
        if len(v) == 1:
            return '"%s"' % v[0]
        return '<<"%s", "%s">>' % (v[0], v[1])
    return b


def run(prop, tier, seed, replay=None):
    t0 = time.time()
    build_harness()
    sc = Scratch()
    try:
        quick = tier == "quick"
        clear_replays(prop)
        H = ["c1", "c2", "c3", "a1", "a2", "a3"]
        states = trans = 0
        jobs = []
        for bi, bodies in enumerate(BODIES):
            # Body as a TLA+ definition in a generated MC module (functions cannot be written in a cfg)
            def one(v):
                if not v:
                    return '<<"none", "">>'
                return '<<"%s", "">>' % v[0] if len(v) == 1 else '<<"%s", "%s">>' % (v[0], v[1])
            bodydef = "[h \\in {%s} |-> CASE %s]" % (", ".join('"%s"' % h for h in H), " [] ".join('h = "%s" -> %s' % (h, one(bodies.get(h))) for h in H))
            mod = "EventRun%d" % bi
            open(os.path.join(SPEC, mod + ".tla"), "w").write("---- MODULE %s ----\nEXTENDS EventBusMC\nBodyDef == %s\n====\n" % (mod, bodydef))
            open(os.path.join(SPEC, "EventRunT%d.tla" % bi), "w").write("---- MODULE EventRunT%d ----\nEXTENDS EventTrace\nBodyDef == %s\n====\n" % (bi, bodydef))
            try:
                ml = (4 if bi == 0 else 5) if quick else (5 if bi == 0 else 6)
                hs = set(H) if bi else {"c1", "c2", "a1", "a2"}
                c = {"Handlers": hs, "MaxLen": ml, "Acts": {"sub", "unsub", "publish"}}
                code, out = run_tlc(mod + ".tla", cfg_text("Spec", c, subst={"Body": "BodyDef"}, view="View", invariants=["Inv"], action_constraints=["Emit"]),
                                    timeout=3000, workers=1, heap="8g")
                st = tlc_stats(out)
                if not tlc_ok(code, out) or not st:
                    raise Inconclusive("EventBusMC failed:\n" + out[-2000:])
                states += st["distinct"]; trans += st["generated"]
                behs = printed_raw(out, "B")
                import random
                cap = 6000 if quick else 60000
                if len(behs) > cap:
                    behs = random.Random(seed).sample(behs, cap)
                log("[%s] bodies %s: %d states, %d behaviours" % (prop, json.dumps(bodies), st["distinct"], len(behs)))
                shards = shard(behs, NCPU)
                files = []
                for i, sh in enumerate(shards):
                    bf, tf = sc.path("ev%d_%d.in" % (bi, i)), sc.path("ev%d_%d.tr" % (bi, i))
                    open(bf, "w").write("\n".join(sh) + "\n")
                    files.append((bf, tf))
                stats = pmap(lambda f: json.loads(run_harness(["events-replay", "-bodies", json.dumps(bodies), "-in", f[0], "-out", f[1]], timeout=3000)), files)
                cfg = cfg_text("TraceSpec", {"Handlers": set(H), "MaxLen": 0, "Acts": set()}, subst={"Body": "BodyDef"}, invariants=["Final"], postcondition="Done")

                def val(f):
                    code, out = run_tlc("EventRunT%d.tla" % bi, cfg, timeout=3000, workers=1, heap="3g", env={"VERIF_TRACE": f[1]}, light=True)
                    if not tlc_ok(code, out):
                        raise Inconclusive("event trace validation failed:\n" + out[-2000:])
                    return printed(out, "BAD")[0], printed(out, "LINES")[0]
                res = pmap(val, files)
                jobs.append((bodies, files, res, sum(s["steps"] for s in stats), len(behs)))
            finally:
                for m in (mod, "EventRunT%d" % bi):
                    os.remove(os.path.join(SPEC, m + ".tla"))
        viol, seen, nsteps, nbeh, nbad = 0, set(), 0, 0, 0
        sample = None
        for bodies, files, res, steps, nb in jobs:
            nsteps += steps; nbeh += nb
            for (bf, tf), (bad, n) in zip(files, res):
                tl = open(tf).read().splitlines()
                if sample is None and len(tl) > 3:
                    sample = {"bodies": bodies, "lines": [json.loads(x) for x in tl[1:4]]}
                for b in bad:
                    nbad += 1
                    key = (b["op"], tuple(sorted(b["why"])))
                    if key in seen:
                        continue
                    seen.add(key)
                    viol += 1
                    j = max(i for i in range(b["line"]) if '"reset"' in tl[i])
                    inputs = [{k: json.loads(x)[k] for k in ("op", "h", "ev")} for x in tl[j + 1:b["line"]]]
                    path = write_replay(prop, "%s_%d" % (b["op"], viol), {"property": prop, "bodies": bodies, "inputs": inputs, "why": b["why"], "observed": json.loads(tl[b["line"] - 1])})
                    print("VIOLATION property=%s replay=%s" % (prop, path))
                    print("  bodies %s history %s: %s" % (json.dumps(bodies), json.dumps(inputs)[:200], b["why"]))
        # free-running rounds
        cf = sc.path("conc")
        run_harness(["events-stress", "-seed", str(seed), "-rounds", "15" if quick else "150", "-out", cf], timeout=3000)
        code, out = run_tlc("EventConc.tla", cfg_text("Spec", {}, invariants=["Final"]), timeout=3000, workers=1, heap="6g", env={"VERIF_TRACE": cf}, light=True)
        if not tlc_ok(code, out):
            raise Inconclusive("concurrent event validation failed:\n" + out[-2000:])
        conc, rounds = printed(out, "CONC")[0], printed(out, "ROUNDS")[0]
        if conc:
            viol += 1
            path = write_replay(prop, "concurrent", {"property": prop, "defects": conc, "how": "harness events-stress -seed %d" % seed})
            print("VIOLATION property=%s replay=%s" % (prop, path))
            print("  concurrent rounds: %s" % json.dumps(conc)[:300])
        cr = core.execute(prop, tier, seed, CORE_PART, clear=False)
        viol += cr["viol"]
        states += cr["cov"]["states"]
        nsteps += cr["cov"]["evaluations"]
        nbeh += cr["cov"]["traces_validated_against_impl"]
        cov = {"states": states, "transitions": trans, "traces_validated_against_impl": nbeh + rounds, "evaluations": nsteps, "distinct_nontrivial": nbeh,
               "internal_handler_part": {k: cr["cov"][k] for k in ("traces_validated_against_impl", "evaluations", "checked_components", "bad_steps")},
               "rule": "BFS transition cover of EventBusMC (handler list x number of publications) for 5 configurations of handler bodies (none, unsubscribe self / other, subscribe other, "
                       "nested publish; both levels), executed on the real process-global bus with quiescence after every operation; plus free-running rounds of 6 goroutines; "
                       "distinct = behaviours",
               "samples": [sample], "concurrent_rounds": rounds, "bad": nbad,
               "checker_cmd": "tlc EventBusMC.tla (INVARIANT Inv); tlc EventTrace.tla; tlc EventConc.tla"}
        write_evidence(prop, tier, seed, "model_checking", cov, ASSUME, time.time() - t0, viol)
        log("[%s] %s: %d behaviours, %d operations, %d bad, %d concurrent rounds, %.1fs" % (prop, tier, nbeh, nsteps, nbad, rounds, time.time() - t0))
        return 1 if viol else 0
    finally:
        sc.close()
