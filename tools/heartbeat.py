"""C16: spec/Heartbeat.tla (start / stop race model) + sequential histories + period rule on the real HeartbeatManager."""
import json, os, time, random, itertools
from vlib import *
import core

ASSUME = [
    "timing: a stream is 'live' if it refreshed the data at least twice in a window of 4 periods (100 ms period) after the calls returned; one refresh may be in flight at a stop (as the property allows)",
    "the period rule (0 < ticker period <= announced timeout; the code's 'minus 2 s above 2 s' is one way to satisfy it) is read from the hook argument for timeouts 100 ms .. 60 s, not measured",
    "forced schedules: two (thorough: three) concurrent calls out of {StartHeartbeat, StopHeartbeat} with the heartbeat initially running or stopped; the final state must be that of a linearization",
    "a timestamp is 'current' if the refresh happened in the window (not compared to the clock)",
]


def run(prop, tier, seed, replay=None):
    t0 = time.time()
    build_harness()
    sc = Scratch()
    try:
        quick = tier == "quick"
        topo = core.gen_bfs(core.consts(acts=["bind"]), 0, "PrefixNone", 300)[0]
        open(sc.path("topo.json"), "w").write(topo)
        states = 0
        if replay:
            cfgs = [json.load(open(replay))["config"]]
        else:
            clear_replays(prop)
            cfgs = []
            for procs in ([{"A", "B"}] if quick else [{"A", "B"}, {"A", "B", "C"}]):
                code, out = run_tlc("Heartbeat.tla", cfg_text("Spec", {"Procs": procs, "Atomic": True}, invariants=["Safe"]), timeout=600, workers=NCPU)
                if not tlc_ok(code, out):
                    raise Inconclusive("atomic Heartbeat model violates Safe:\n" + out[-1500:])
                states += tlc_stats(out)["distinct"]
                code, out = run_tlc("Heartbeat.tla", cfg_text("Spec", {"Procs": procs, "Atomic": False}, invariants=["EmitInv"]), timeout=1200, workers=1, heap="8g")
                if not tlc_ok(code, out):
                    raise Inconclusive("Heartbeat schedule enumeration failed:\n" + out[-1500:])
                states += tlc_stats(out)["distinct"]
                s = printed(out, "S")
                if len(procs) == 3:
                    s = random.Random(seed).sample(s, 600)
                cfgs += s
            # sequential histories
            ops = ["start", "stop", "rement", "addent", "addfn"]
            for n in ([2, 3] if quick else [2, 3, 4]):
                for seq in itertools.product(ops, repeat=n):
                    if quick and n == 3 and random.Random(str(seq) + str(seed)).random() > 0.5:
                        continue
                    cfgs.append({"seq": list(seq)})
            cfgs.append({"periods": [100, 150, 500, 1000, 1990, 2000, 2100, 2350, 3000, 4000, 60000]})
            cfgs.append({"slow": True})
        shards = shard([json.dumps(x) for x in cfgs], NCPU * 2)
        files = []
        for i, sh in enumerate(shards):
            bf, tf = sc.path("hb_in%d" % i), sc.path("hb_tr%d" % i)
            open(bf, "w").write("\n".join(sh) + "\n")
            files.append((bf, tf))
        pmap(lambda f: run_harness(["hb-replay", "-topo", sc.path("topo.json"), "-in", f[0], "-out", f[1]], timeout=3000), files, workers=NCPU * 2)

        def val(f):
            code, out = run_tlc("HeartbeatTrace.tla", cfg_text("Spec", {}, invariants=["Final"]), timeout=900, env={"VERIF_TRACE": f[1]}, light=True, heap="2g")
            if not tlc_ok(code, out):
                raise Inconclusive("heartbeat trace validation failed:\n" + out[-2000:])
            b = printed(out, "RACEBAD")[0]
            return (list(b.values()) if isinstance(b, dict) else b), printed(out, "RACESTAT")[0]
        res = pmap(val, files)
        viol, seen, lines, realised, unsafe_r, nbad = 0, set(), 0, 0, 0, 0
        sample = None
        for (bf, tf), (bad, stt) in zip(files, res):
            lines += stt["lines"]; realised += stt["realised"]; unsafe_r += stt["unsaferealised"]
            tl = open(tf).read().splitlines()
            if sample is None and tl:
                sample = json.loads(tl[0])
            for b in bad:
                nbad += 1
                key = tuple(sorted(b["defects"]))
                if key in seen:
                    continue
                seen.add(key)
                viol += 1
                o = json.loads(tl[b["line"] - 1])
                cfgx = {"slow": True} if o["mode"] == "slow" else {"seq": o["pre"] + [o["op"]]} if o["mode"] == "seq" else ({"periods": [100, 150, 500, 1000, 1990, 2000, 2100, 2350, 3000, 4000, 60000]} if o["mode"] == "periods"
                                                                                   else {"kind": o["kind"], "init": o["init"], "sched": o["sched"], "unsafe": o["unsafe"]})
                path = write_replay(prop, "hb_%d" % viol, {"property": prop, "config": cfgx, "defects": b["defects"],
                                    "observed": {k: o[k] for k in ("live", "running", "rate", "window", "panic", "ctrok", "notified", "periodok", "maxagems", "after")}})
                print("VIOLATION property=%s replay=%s" % (prop, path))
                print("  %s -> live %d running %s %s: %s" % (json.dumps(cfgx), o["live"], o["running"], o["panic"], b["defects"]))
        if replay:
            if not viol:
                print("replay: accepted")
            return 1 if viol else 0
        if realised == 0:
            raise Inconclusive("no heartbeat schedule realised")
        cov = {"states": states, "transitions": states, "traces_validated_against_impl": len(cfgs), "evaluations": lines, "distinct_nontrivial": realised,
               "rule": "every interleaving of two (thorough: sampled three) concurrent start/stop calls of the code-shaped Heartbeat model x initially running or not, forced through gates; "
                       "sequential histories over {start, stop, remove entity, add entity, add the heartbeat function again} of length 2..3(4); period rule for 11 timeouts (three of them no multiple of the 0.1 s resolution of the announced value); distinct = executions realised on the code",
               "samples": [{k: sample[k] for k in ("mode", "kind", "init", "sched", "op", "pre", "live", "running", "rate")}],
               "schedules_unrealisable": lines - realised, "attack_schedules_realised": unsafe_r, "bad": nbad,
               "checker_cmd": "tlc Heartbeat.tla (Atomic: INVARIANT Safe; split: enumeration); tlc HeartbeatTrace.tla"}
        import suite
        sr = suite.execute(prop, sc)   # the repository's own tests under the state tracer (message counters / heartbeat refreshes)
        viol += sr["viol"]
        cov["suite_trace"] = sr["cov"]
        write_evidence(prop, tier, seed, "model_checking", cov, ASSUME, time.time() - t0, viol)
        log("[%s] %s: %d executions (%d lines), %d realised, %d bad, %.1fs" % (prop, tier, len(cfgs), lines, realised, nbad, time.time() - t0))
        return 1 if viol else 0
    finally:
        sc.close()
