"""C02 / C04 / C11: spec/ListData.tla. TLC checks the algebraic properties over the whole small domain, emits every
(existing list, update) case and short update histories; the Go drivers execute them
  fd    on the real FunctionData of three hand-mapped list types,
  e2e   through the whole stack (FeatureLocal API, write / notify / reply datagrams, the remote-feature cache, the data
        delivered in data-change events),
  refl  on the FunctionData of every registered list function that a reflective adapter can map onto the abstract item;
TLC validates every step (ListTrace)."""
import json, os, time, random
from vlib import *
import replica

TYPES = [("limit", 1, True), ("setpoint", 1, True), ("ecparam", 2, False)]
WHAT = {"C02": ("c02", {"local"}), "C04": ("c04", {"remote"}), "C11": ("c11", {"local", "remote"})}
ASSUME = {
    "C02": ["stored items always carry their identifiers; an update list has at most one item per identifier and is either fully identified or a single identifier-less item",
            "with a selector the data item carries no identifier or the selected one; selectors name key fields (a selector on a field that is absent in a stored item is a robustness input, C05)",
            "values: identifiers 1..3 (one key) / pairs (two keys), two value fields; three hand-mapped list types through spine.FunctionData and end to end through the stack, and every registered list function the reflective adapter can map (unsigned-integer keys addressable by the selectors type; further key fields held constant) through spine.FunctionData; the functions it cannot map are listed in the evidence",
            "local = the remoteWrite=false path shared by the local API, reply and notify"],
    "C04": ["the addressed elements of a write are those it would modify or delete under the cmdOption rules (full: all existing elements; partial with identifiers: those identifiers; identifier-less: all; selector: the selected one; delete: the matching / all elements)",
            "an identifier unknown to the list may be appended or make the write fail (both allowed), but not be dropped under a success",
            "an element without flag value counts as not changeable (its flag is not true)",
            "list functions whose elements carry a field tagged writecheck: loadControlLimitListData, setpointListData, deviceConfigurationKeyValueListData"],
    "C11": ["snapshots = every object returned by DataCopy before a step, the data delivered in data-change events and the data returned by FeatureRemote.UpdateData; they are re-serialised after every later step (sequential aliasing only; the concurrent clause is a data-race statement outside this technique)",
            "histories of up to 3 updates after a snapshot over all shapes and origins"],
}


# C11 also for the use-case data the application reads from node management (SpineCore histories of the use-case operations;
# the data sets read in earlier steps are kept and compared)
UC_PART = {
    "checked": ["ucsnap", "ucs", "panic"],
    "assumptions": [],
    "quick": {"mc": [{"acts": ["adduc", "remuc", "setav", "remall"], "tiny": ["adduc"], "maxlen": 3}],
              "gen": [{"acts": ["adduc", "remuc", "setav", "remall"], "maxlen": 3},
                      {"acts": ["adduc", "remuc", "setav"], "tiny": ["adduc"], "maxlen": 4, "view": None}],
              "sim": [], "cap": 12000},
    "thorough": {"mc": [{"acts": ["adduc", "remuc", "setav", "remall"], "maxlen": 4}],
                 "gen": [{"acts": ["adduc", "remuc", "setav", "remall"], "maxlen": 4},
                         {"acts": ["adduc", "remuc", "setav"], "tiny": ["adduc"], "maxlen": 5, "view": None}],
                 "sim": [], "cap": 100000},
}


def consts(nk, flag, mode, maxlen, origins, rich, devs=()):
    return {"KnownDeviations": set(devs), "HasFlag": flag, "NKeys": nk, "Mode": mode, "MaxLen": maxlen, "Origins": set(origins), "Rich": rich}


def generate(prop, nk, flag, origins, modes):
    """cases / histories from TLC for one signature; returns (cases, states, transitions)"""
    cases, states, trans = [], 0, 0
    for mode, maxlen, rich in modes:
        c = consts(nk, flag, mode, maxlen, origins, rich)
        code, out = run_tlc("ListMC.tla", cfg_text("Spec", c, invariants=["Inv"], properties=["StepProperty"], view="View" if mode == "hist" else None,
                                                   action_constraints=["Emit"]), timeout=3000, workers=1, heap="8g")
        st = tlc_stats(out)
        if not tlc_ok(code, out) or not st:
            raise Inconclusive("ListMC failed (%d keys, flag %s, %s):\n%s" % (nk, flag, mode, out[-2500:]))
        states += st["distinct"]
        trans += st["generated"]
        b = printed_raw(out, "B")
        log("[%s] %d key(s), flag %s, %s: %d states, %d cases/behaviours" % (prop, nk, flag, mode, st["distinct"], len(b)))
        cases += b
    return cases, states, trans


def write_results_part(prop, tier, seed, sc):
    """C01, the writes that pass the gate of DeviceLocal.ProcessCmd (function writable, binding present) and are then decided by
    the data layer: every (stored list, remote update) case of the flagged one-key signature is sent as a write datagram of a
    bound peer to a real server feature, two in three asking for an acknowledgement; the result datagram (error result for a
    rejected write whether or not an acknowledgement was requested, success result only on request) and the stored data are
    validated by ListTrace against the remote-write contract.  Returns {"viol", "cov"}."""
    quick = tier == "quick"
    known = open_deviations("C04")      # the listed deviations of the data layer are followed here, they are C04's findings
    cases, st, tr = generate(prop, 1, True, {"remote"}, [("cases", 1, True)])
    rnd = random.Random(seed)
    cases = rnd.sample(cases, min(len(cases), 4000 if quick else len(cases)))
    work = []
    for i, sh in enumerate(shard(cases, NCPU)):
        bf, tf = sc.path("wr%d.in" % i), sc.path("wr%d.trace" % i)
        open(bf, "w").write("\n".join(sh) + "\n")
        work.append((bf, tf))
    stats = pmap(lambda w: json.loads(run_harness(["list-e2e", "-type", "limit", "-in", w[0], "-out", w[1]])), work)
    cfg = cfg_text("TraceSpec", {"KnownDeviations": set(known.keys()), "HasFlag": True, "Checked": {"c04"}}, invariants=["Final"], postcondition="Done")

    def val(w):
        code, out = run_tlc("ListTrace.tla", cfg, timeout=3000, workers=1, heap="3g", env={"VERIF_TRACE": w[1]}, light=True)
        if not tlc_ok(code, out):
            raise Inconclusive("write result validation failed on %s:\n%s" % (w[1], out[-2500:]))
        return printed(out, "BAD")[0], printed(out, "LINES")[0]
    viol, seen, lines = 0, set(), 0
    for w, (bad, n) in zip(work, pmap(val, work)):
        lines += n
        tl = None
        for b in bad:
            tl = tl or open(w[1]).read().splitlines()
            e = json.loads(tl[b["line"] - 1])
            key = (e["u"]["partial"], e["u"]["delete"], b["why"], e["panic"])
            if key in seen:
                continue
            seen.add(key)
            viol += 1
            path = write_replay(prop, "writeresult_%d" % viol, {"property": prop, "how": "list-e2e write results", "type": "limit", "case": {"init": e["pre"], "ups": [e["u"]]},
                                                                 "observed": {"ok": e["ok"], "store": e["store"], "panic": e["panic"]}, "why": b["why"]})
            print("VIOLATION property=%s replay=%s" % (prop, path))
            print("  write to a bound server feature: list %s, update %s -> accepted=%s %s: %s" % (json.dumps(e["pre"]), json.dumps(e["u"]), e["ok"], e["panic"], b["why"]))
    log("[%s] write results through the data layer: %d writes, %d lines validated, %d violation classes" % (prop, sum(s["steps"] for s in stats), lines, viol))
    return {"viol": viol, "cov": {"writes": sum(s["steps"] for s in stats), "trace_lines": lines, "states": st, "cases": len(cases), "bad": viol}}


def run(prop, tier, seed, replay=None):
    t0 = time.time()
    build_harness()
    sc = Scratch()
    try:
        known = open_deviations(prop)
        tag, origins = WHAT[prop]
        quick = tier == "quick"
        rnd = random.Random(seed)
        survey = json.loads(run_harness(["list-survey"]))
        units = []      # (typ, nk, flag, layer, cases)
        states = trans = 0
        if replay:
            r = json.load(open(replay))
            units = [(r["type"], r["nkeys"], r["flag"], r.get("layer", "fd"), [json.dumps(r["case"])])]
        else:
            clear_replays(prop)
            # one generation per signature (number of key fields, changeability flag), side by side
            sigs = {(1, True): [("cases", 1, True), ("hist", 2 if quick else 3, False)],
                    (1, False): [("cases", 1, not quick), ("hist", 2, False)],
                    (2, False): [("cases", 1, not quick), ("hist", 2 if quick else 3, False)]}
            if prop == "C04":
                del sigs[(1, False)]        # C04 speaks about list functions with a changeability flag
            gen = dict(zip(sigs, pmap(lambda s: generate(prop, s[0], s[1], origins, sigs[s]), list(sigs), workers=3)))
            for s in gen:
                states += gen[s][1]
                trans += gen[s][2]
            for typ, nk, flag in TYPES:
                cases = gen[(nk, flag)][0]
                if quick and typ == "setpoint":
                    cases = [c for c in cases if '"init":[]' not in c.replace(" ", "")]     # (the histories are run on limit)
                units.append((typ, nk, flag, "fd", cases))
                # the same cases end to end (quick: all histories and a third of the single-update cases)
                units.append((typ, nk, flag, "e2e", [c for c in cases if not quick or '"init":[]' in c.replace(" ", "") or rnd.random() < 0.34]))
            # every registered list function the reflective adapter can map
            per_fn = 500 if quick else 6000
            for inf in survey:
                if not inf["usable"] or (prop == "C04" and not inf["flag"]):
                    continue
                sig = (inf["nkeys"], bool(inf["flag"]))
                pool = gen[sig][0]
                units.append(("refl:" + inf["fn"], sig[0], sig[1], "fd", rnd.sample(pool, min(len(pool), per_fn))))
        # ---- execute on the code ----
        work = []       # (unit index, shard index, cases file, trace file)
        for ui, (typ, nk, flag, layer, cases) in enumerate(units):
            nsh = 1 if typ.startswith("refl:") else NCPU
            for i, sh in enumerate(shard(cases, nsh)):
                bf, tf = sc.path("u%d_%d.in" % (ui, i)), sc.path("u%d_%d.trace" % (ui, i))
                open(bf, "w").write("\n".join(sh) + "\n")
                work.append((ui, i, bf, tf))

        def execu(w):
            typ, layer = units[w[0]][0], units[w[0]][3]
            return json.loads(run_harness(["list-replay" if layer == "fd" else "list-e2e", "-type", typ, "-in", w[2], "-out", w[3]]))
        stats = pmap(execu, work)
        layer_steps = {"fd": 0, "e2e": 0, "refl": 0}
        for w, s in zip(work, stats):
            layer_steps["refl" if units[w[0]][0].startswith("refl:") else units[w[0]][3]] += s["steps"]
        total_steps = sum(layer_steps.values())
        ncases = sum(len(u[4]) for u in units)
        # ---- validate: trace files grouped by flag into NCPU files each; a line is found again through (unit, shard, ci) ----
        groups = {}
        for w in work:
            groups.setdefault(units[w[0]][2], []).append(w)
        vfiles = []     # (flag, file, index: list of (work item, line in its trace file))
        for flag, ws in groups.items():
            ws = sorted(ws, key=lambda w: -os.path.getsize(w[3]))
            bins, sizes = [[] for _ in range(NCPU)], [0] * NCPU
            for w in ws:
                j = sizes.index(min(sizes))
                bins[j].append(w)
                sizes[j] += os.path.getsize(w[3])
            for j, b in enumerate(bins):
                vf = sc.path("v_%s_%d.trace" % (flag, j))
                index = []
                with open(vf, "w") as out:
                    for w in b:
                        for n, l in enumerate(open(w[3])):
                            out.write(l)
                            index.append((w, n))
                if index:
                    vfiles.append((flag, vf, index))

        def cfg_for(flag, devs):
            return cfg_text("TraceSpec", {"KnownDeviations": set(devs), "HasFlag": flag, "Checked": {tag}}, invariants=["Final"], postcondition="Done")

        def val(v):
            code, out = run_tlc("ListTrace.tla", cfg_for(v[0], known.keys()), timeout=3000, workers=1, heap="3g", env={"VERIF_TRACE": v[1]}, light=True)
            if not tlc_ok(code, out):
                raise Inconclusive("list trace validation failed on %s:\n%s" % (v[1], out[-2500:]))
            return printed(out, "BAD")[0], printed(out, "DEVS")[0], printed(out, "LINES")[0]
        res = pmap(val, vfiles)
        # binding self-test: corrupt one stored value / one snapshot report of a real line
        if not replay:
            flag, vf, index = vfiles[0]
            lines = open(vf).read().splitlines()
            k = next((i for i, l in enumerate(lines) if json.loads(l)["store"] and json.loads(l)["ok"]
                      and ((tag == "c04") == json.loads(l)["u"]["remote"] or tag == "c11")), None)
            if k is None:
                raise Inconclusive("binding self-test: no suitable line")
            e = json.loads(lines[k])
            if tag == "c11":
                e["snapchg"] = [0]
            else:
                e["store"][0]["v"] += 5
            open(sc.path("selftest"), "w").write(json.dumps(e) + "\n")
            code, out = run_tlc("ListTrace.tla", cfg_for(flag, ()), timeout=300, workers=1, heap="2g", env={"VERIF_TRACE": sc.path("selftest")}, light=True)
            if not (tlc_ok(code, out) and printed(out, "BAD")[0]):
                raise Inconclusive("binding self-test failed: corrupted line accepted")
        viol, total_lines, devs_used, samples, distinct, seen = 0, 0, {}, [], set(), set()
        for (flag, vf, index), (bad, devs, n) in zip(vfiles, res):
            total_lines += n
            tl = open(vf).read().splitlines()
            for b in bad:
                e = json.loads(tl[b["line"] - 1])
                w, _ = index[b["line"] - 1]
                typ, nk, _, layer, _ = units[w[0]]
                key = (typ, e.get("path", "fd"), e["u"]["partial"], e["u"]["delete"], e["u"]["remote"], e["u"]["persist"], b["why"], len(e["u"]["data"]))
                if key in seen:
                    continue
                seen.add(key)
                viol += 1
                whole = b["why"] == "snapshot changed" or replay
                path = write_replay(prop, "%s_%s_%s_%s_%s" % (typ.replace("refl:", ""), e.get("path", "fd"), e["u"]["partial"], e["u"]["delete"], b["why"].replace(" ", "-")[:20]),
                                    {"property": prop, "type": typ, "nkeys": nk, "flag": flag, "layer": layer, "path": e.get("path", "fd"),
                                     "case": json.loads(open(w[2]).read().splitlines()[e["ci"]]) if whole else {"init": e["pre"], "ups": [e["u"]]},
                                     "observed": {"ok": e["ok"], "store": e["store"], "ret": e["ret"], "snapchg": e["snapchg"], "panic": e["panic"]}, "why": b["why"]})
                if viol <= 40:
                    print("VIOLATION property=%s replay=%s" % (prop, path))
                    print("  %s (%s) list %s, update %s: %s" % (typ, e.get("path", "FunctionData"), json.dumps(e["pre"]), json.dumps(e["u"]), b["why"]))
            if isinstance(devs, dict):
                for name, d in devs.items():
                    if name not in devs_used:
                        devs_used[name] = {"n": 0, "first": json.loads(tl[d["first"] - 1])}
                    devs_used[name]["n"] += d["n"]
            for l in tl[:4000]:
                e = json.loads(l)
                distinct.add((e.get("fn", ""), e.get("path", "fd"), e["u"]["partial"], e["u"]["delete"], e["u"]["remote"], e["u"]["persist"], len(e["u"]["data"]), e["ok"], len(e["pre"]), len(e["store"])))
                if len(samples) < 3 and e["u"]["partial"] != "none" and e["pre"]:
                    samples.append({"function": e.get("fn", ""), "path": e.get("path", "fd"), "pre": e["pre"], "update": e["u"], "ok": e["ok"], "store": e["store"]})
        if replay:
            if not viol:
                print("replay: accepted by the specification")
            return 1 if viol else 0
        beyond = None
        if prop == "C02":
            # observational, beyond the listed properties: replica convergence (spec/Replica.tla)
            lim = next(u for u in units if u[0] == "limit" and u[3] == "fd")[4]
            pool = [c for c in lim if '"persist":true' in c.replace(" ", "")]
            try:
                beyond = replica.run(sc, random.Random(seed).sample(pool, min(len(pool), 6000 if quick else len(pool))))
            except Exception as ex:     # observational: never part of the verdict
                beyond = {"error": "replica observation failed: %s" % str(ex)[:200]}
            if "code" in beyond:
                log("[C02] beyond the listed properties: replica diverged after %d of %d changes of the real server feature (design level: %d of %d cases); %d steps not as modelled" % (
                    beyond["code"]["replica_diverged"], beyond["code"]["changes_executed"], beyond["design"]["diverging"], beyond["design"]["cases"], beyond["code"]["not_as_modelled"]))
        for name, d in devs_used.items():
            f = known.get(name)
            if f:
                e = d["first"]
                print("KNOWN-FINDING: property=%s %s: %s (%d steps, e.g. list %s update %s -> ok=%s store %s)" % (
                    prop, name, f["identified_by"], d["n"], json.dumps(e["pre"]), json.dumps(e["u"]), e["ok"], json.dumps(e["store"])))
            else:
                viol += 1
                print("VIOLATION property=%s replay=none (deviation %s used but not listed)" % (prop, name))
        ucpart = None
        if prop == "C11":
            import core
            cr = core.execute(prop, tier, seed, UC_PART, clear=False)
            viol += cr["viol"]
            ucpart = {k: cr["cov"][k] for k in ("traces_validated_against_impl", "evaluations", "checked_components", "bad_steps")}
        refl_fns = sorted(u[0][5:] for u in units if u[0].startswith("refl:"))
        cov = {"states": states, "transitions": trans, "traces_validated_against_impl": ncases, "evaluations": total_steps,
               "distinct_nontrivial": len(distinct),
               "rule": "every (existing list, update) pair of the small domain (TLC initial-state enumeration) and BFS transition cover of update histories per signature (key fields, flag); "
                       "executed on three hand-mapped list types (FunctionData and end to end) and on every list function the reflective adapter maps (sample per function in the quick tier); "
                       "distinct = distinct (function, path, filter shape, origin, persist, data length, outcome, list lengths) classes in a sample of the trace",
               "samples": samples, "trace_lines": total_lines, "steps_by_layer": layer_steps, "beyond_listed_properties": beyond, "use_case_data_part": ucpart,
               "list_functions_reflective": {"covered": refl_fns, "n_covered": len(refl_fns),
                                             "not_mapped": {i["fn"]: i["why"] for i in survey if not i["usable"] and "not a list" not in i["why"]}},
               "exhaustive": True, "deviations_used": {k: v["n"] for k, v in devs_used.items()},
               "binding_selftest": {"done": True, "rejected": True},
               "checker_cmd": "tlc ListMC.tla (INVARIANT Inv, PROPERTY StepProperty); tlc ListTrace.tla"}
        write_evidence(prop, tier, seed, "model_checking", cov, ASSUME[prop], time.time() - t0, viol)
        log("[%s] %s: %d cases, %d steps on the code (%s), %d violation classes, %.1fs" % (prop, tier, ncases, total_steps, layer_steps, viol, time.time() - t0))
        return 1 if viol else 0
    finally:
        sc.close()
