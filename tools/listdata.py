"""C02 / C04 / C11: spec/ListData.tla. TLC checks the algebraic properties over the whole small domain, emits every
(existing list, update) case and short update histories; the Go driver executes them on the real FunctionData of
representative list types; TLC validates every step (ListTrace)."""
import json, os, time
from vlib import *

TYPES = [("limit", 1, True), ("setpoint", 1, True), ("ecparam", 2, False)]
WHAT = {"C02": ("c02", {"local"}), "C04": ("c04", {"remote"}), "C11": ("c11", {"local", "remote"})}
ASSUME = {
    "C02": ["stored items always carry their identifiers; an update list has at most one item per identifier and is either fully identified or a single identifier-less item",
            "with a selector the data item carries no identifier or the selected one; selectors name key fields (a selector on a field that is absent in a stored item is a robustness input, C05)",
            "values: identifiers 1..3 (one key) / pairs (two keys), two value fields, three representative list types (two with changeability flag, one with two key fields) through spine.FunctionData; the reflective driver over all registered list types is listed in DESIGN.md as coverage to grow",
            "local = the remoteWrite=false path shared by the local API, reply and notify"],
    "C04": ["the addressed elements of a write are those it would modify or delete under the cmdOption rules (full: all existing elements; partial with identifiers: those identifiers; identifier-less: all; selector: the selected one; delete: the matching / all elements)",
            "an identifier unknown to the list may be appended or make the write fail (both allowed), but not be dropped under a success",
            "an element without flag value counts as not changeable (its flag is not true)"],
    "C11": ["snapshots = every object returned by DataCopy before a step; they are re-serialised after every later step (sequential aliasing only; the concurrent clause is a data-race statement outside this technique)",
            "histories of up to 3 updates after a snapshot over all shapes and origins"],
}


def consts(nk, flag, mode, maxlen, origins, rich, devs=()):
    return {"KnownDeviations": set(devs), "HasFlag": flag, "NKeys": nk, "Mode": mode, "MaxLen": maxlen, "Origins": set(origins), "Rich": rich}


def run(prop, tier, seed, replay=None):
    t0 = time.time()
    build_harness()
    sc = Scratch()
    try:
        known = open_deviations(prop)
        tag, origins = WHAT[prop]
        quick = tier == "quick"
        if replay:
            r = json.load(open(replay))
            jobs = [(r["type"], r["nkeys"], r["flag"], [json.dumps(r["case"])], r.get("layer", "fd"))]
        else:
            clear_replays(prop)
            jobs = []
        states = trans = 0
        if not replay:
            for typ, nk, flag in TYPES:
                cases = []
                for mode, maxlen, rich in ([("cases", 1, not quick or typ == "limit"), ("hist", 2 if quick else 3, False)]):
                    if mode == "hist" and quick and typ == "setpoint":
                        continue
                    c = consts(nk, flag, mode, maxlen, origins, rich)
                    code, out = run_tlc("ListMC.tla", cfg_text("Spec", c, invariants=["Inv"], properties=["StepProperty"], view="View" if mode == "hist" else None,
                                                               action_constraints=["Emit"]), timeout=3000, workers=1, heap="8g")
                    st = tlc_stats(out)
                    if not tlc_ok(code, out) or not st:
                        raise Inconclusive("ListMC failed (%s %s):\n%s" % (typ, mode, out[-2500:]))
                    states += st["distinct"]; trans += st["generated"]
                    b = printed_raw(out, "B")
                    log("[%s] %s %s: %d states, %d cases/behaviours" % (prop, typ, mode, st["distinct"], len(b)))
                    cases += b
                jobs.append((typ, nk, flag, cases, "fd"))
                # the same cases end to end: FeatureLocal API, write / notify / reply datagrams, FeatureRemote cache
                # (quick: all histories and every third single-update case)
                e2e = [c for i, c in enumerate(cases) if not quick or i % 3 == 0 or '"init":[]' in c.replace(" ", "")]
                jobs.append((typ, nk, flag, e2e, "e2e"))
        viol, total_steps, total_lines, devs_used, samples, distinct = 0, 0, 0, {}, [], set()
        ncases = 0
        layer_steps = {"fd": 0, "e2e": 0}
        for typ, nk, flag, cases, layer in jobs:
            ncases += len(cases)
            shards = shard(cases, NCPU)
            files = []
            for i, sh in enumerate(shards):
                bf, tf = sc.path("%s_%s_%d.in" % (typ, layer, i)), sc.path("%s_%s_%d.trace" % (typ, layer, i))
                open(bf, "w").write("\n".join(sh) + "\n")
                files.append((bf, tf))
            sub = "list-replay" if layer == "fd" else "list-e2e"
            stats = pmap(lambda f: json.loads(run_harness([sub, "-type", typ, "-in", f[0], "-out", f[1]])), files)
            total_steps += sum(s["steps"] for s in stats)
            layer_steps[layer] += sum(s["steps"] for s in stats)
            cfg = cfg_text("TraceSpec", {"KnownDeviations": set(known.keys()), "HasFlag": flag, "Checked": {tag}}, invariants=["Final"], postcondition="Done")

            def val(f):
                code, out = run_tlc("ListTrace.tla", cfg, timeout=3000, workers=1, heap="3g", env={"VERIF_TRACE": f[1]}, light=True)
                if not tlc_ok(code, out):
                    raise Inconclusive("list trace validation failed on %s:\n%s" % (f[1], out[-2500:]))
                return printed(out, "BAD")[0], printed(out, "DEVS")[0], printed(out, "LINES")[0]
            res = pmap(val, files)
            # binding self-test on the first shard: corrupt one stored value
            lines = open(files[0][1]).read().splitlines()
            k = next((i for i, l in enumerate(lines) if json.loads(l)["store"] and json.loads(l)["ok"]
                      and ((tag == "c04") == json.loads(l)["u"]["remote"] or tag == "c11")), None)
            if k is not None and not replay:
                e = json.loads(lines[k])
                if tag == "c11":
                    e["snapchg"] = [0]
                else:
                    e["store"][0]["v"] += 5
                open(sc.path("selftest"), "w").write(json.dumps(e) + "\n")
                code, out = run_tlc("ListTrace.tla", cfg_text("TraceSpec", {"KnownDeviations": set(), "HasFlag": flag, "Checked": {tag}}, invariants=["Final"], postcondition="Done"),
                                    timeout=300, workers=1, heap="2g", env={"VERIF_TRACE": sc.path("selftest")}, light=True)
                if not (tlc_ok(code, out) and printed(out, "BAD")[0]):
                    raise Inconclusive("binding self-test failed: corrupted line accepted")
            seen = set()
            for (bf, tf), (bad, devs, n) in zip(files, res):
                total_lines += n
                tl = None
                for b in bad:
                    if tl is None:
                        tl = open(tf).read().splitlines()
                    e = json.loads(tl[b["line"] - 1])
                    key = (e.get("path", "fd"), e["u"]["partial"], e["u"]["delete"], e["u"]["remote"], e["u"]["persist"], b["why"], len(e["u"]["data"]))
                    if key in seen:
                        continue
                    seen.add(key)
                    viol += 1
                    path = write_replay(prop, "%s_%s_%s_%s_%s" % (typ, e.get("path", "fd"), e["u"]["partial"], e["u"]["delete"], b["why"].replace(" ", "-")[:20]),
                                        {"property": prop, "type": typ, "nkeys": nk, "flag": flag, "layer": layer, "path": e.get("path", "fd"),
                                         "case": json.loads(open(bf).read().splitlines()[e["ci"]]) if b["why"] in ("snapshot changed",) or replay else {"init": e["pre"], "ups": [e["u"]]},
                                         "observed": {"ok": e["ok"], "store": e["store"], "ret": e["ret"], "snapchg": e["snapchg"], "panic": e["panic"]}, "why": b["why"]})
                    print("VIOLATION property=%s replay=%s" % (prop, path))
                    print("  %s (%s) list %s, update %s: %s" % (typ, e.get("path", "FunctionData"), json.dumps(e["pre"]), json.dumps(e["u"]), b["why"]))
                if isinstance(devs, dict):
                    for name, d in devs.items():
                        if name not in devs_used:
                            tl = tl or open(tf).read().splitlines()
                            devs_used[name] = {"n": 0, "first": json.loads(tl[d["first"] - 1])}
                        devs_used[name]["n"] += d["n"]
            for l in lines[:3000]:
                e = json.loads(l)
                distinct.add((typ, e.get("path", "fd"), e["u"]["partial"], e["u"]["delete"], e["u"]["remote"], e["u"]["persist"], len(e["u"]["data"]), e["ok"], len(e["pre"]), len(e["store"])))
                if len(samples) < 3 and e["u"]["partial"] != "none" and e["pre"]:
                    samples.append({"type": typ, "pre": e["pre"], "update": e["u"], "ok": e["ok"], "store": e["store"]})
        if replay:
            if not viol:
                print("replay: accepted by the specification")
            return 1 if viol else 0
        for name, d in devs_used.items():
            f = known.get(name)
            if f:
                e = d["first"]
                print("KNOWN-FINDING: property=%s %s: %s (%d steps, e.g. list %s update %s -> ok=%s store %s)" % (
                    prop, name, f["identified_by"], d["n"], json.dumps(e["pre"]), json.dumps(e["u"]), e["ok"], json.dumps(e["store"])))
            else:
                viol += 1
                print("VIOLATION property=%s replay=none (deviation %s used but not listed)" % (prop, name))
        cov = {"states": states, "transitions": trans, "traces_validated_against_impl": ncases, "evaluations": total_steps,
               "distinct_nontrivial": len(distinct),
               "rule": "every (existing list, update) pair of the small domain (TLC initial-state enumeration) and BFS transition cover of update histories, for three list types; "
                       "distinct = distinct (type, filter shape, origin, persist, data length, outcome, list lengths) classes in a sample of the trace",
               "samples": samples, "trace_lines": total_lines, "steps_by_layer": layer_steps, "exhaustive": True, "deviations_used": {k: v["n"] for k, v in devs_used.items()},
               "binding_selftest": {"done": True, "rejected": True},
               "checker_cmd": "tlc ListMC.tla (INVARIANT Inv, PROPERTY StepProperty); tlc ListTrace.tla"}
        level = "model_checking"
        write_evidence(prop, tier, seed, level, cov, ASSUME[prop], time.time() - t0, viol)
        log("[%s] %s: %d cases, %d steps on the code, %d violations classes, %.1fs" % (prop, tier, ncases, total_steps, viol, time.time() - t0))
        return 1 if viol else 0
    finally:
        sc.close()
