"""C17 (completion half): LockOrder.tla deadlock check + lock-order probes through the hook points + free-running stress."""
import json, os, time
from vlib import *
import core

ASSUME = [
    "the data-race clause of C17 (races in the sense of the Go memory model) is NOT decided by this technique; only 'every API call and every message handling completes' is claimed",
    "probes: 12 holder operations parked at hook points where they hold a mutex (binding / subscription manager, event bus, write approval, use-case mutex, heartbeat) x 23 other operations on another connection; "
    "a probe passes if both complete after the holder is released and the registries, message handling and teardown work afterwards",
    "free-running rounds: 12 goroutines x 60 random operations on 2 connections (inbound calls, writes, replies, discovery, disconnect/reconnect, entity changes, local API) with a 20 s watchdog",
    "LockOrder.tla is read off the code by hand: it shows the design's lock order is deadlock-free; only the probes and the stress bind that statement to the code",
]
OPS = ["bindreq", "subreq", "unbind", "unsub", "disconnect", "entrem", "discover", "addentity", "rementity", "setdata", "write", "writeappr", "verdict", "timeout", "discread",
       "usecase", "lsub", "hbtick", "hbstart", "reply"]


def run(prop, tier, seed, replay=None):
    t0 = time.time()
    build_harness()
    sc = Scratch()
    try:
        quick = tier == "quick"
        clear_replays(prop)
        topo = core.gen_bfs(core.consts(acts=["bind"]), 0, "PrefixNone", 300)[0]
        open(sc.path("topo.json"), "w").write(topo)
        states = 0
        for n, ops in [(2, OPS)] + ([] if quick else [(3, ["bindreq", "subreq", "disconnect", "addentity", "rementity", "verdict", "usecase", "hbtick", "discover", "write"])]):
            cfg = "SPECIFICATION Spec\nCONSTANTS\n  NProcs = %d\n  OpsUsed = %s\nINVARIANT WellFormed\n" % (n, tla_const(set(ops)))
            code, out = run_tlc("LockOrder.tla", cfg, timeout=3000, workers=NCPU, heap="12g")
            st = tlc_stats(out)
            if not tlc_ok(code, out) or not st:
                raise Inconclusive("LockOrder: deadlock or error in the model of the design:\n" + out[-2500:])
            states += st["distinct"]
            log("[%s] LockOrder %d processes: %d states, no deadlock" % (prop, n, st["distinct"]))
        n = NCPU
        files = [sc.path("lp%d" % i) for i in range(n)]
        # (the state tracer is on in these processes: the registries as they are under their locks at every change and the
        # message counters drawn, in the probes and in the free-running rounds, are validated by SuiteTrace below)
        pmap(lambda i: run_harness(["lock-probe", "-topo", sc.path("topo.json"), "-out", files[i], "-shard", str(i), "-shards", str(n), "-seed", str(seed),
                                    "-stress", "2" if quick else "25"], timeout=3000, env={"VERIF_SUITE_TRACE": files[i] + ".st"}), list(range(n)))
        tf = sc.path("all")
        with open(tf, "w") as f:
            for x in files:
                f.write(open(x).read())
        code, out = run_tlc("LockTrace.tla", cfg_text("Spec", {}, invariants=["Final"]), timeout=900, env={"VERIF_TRACE": tf}, light=True, heap="3g")
        if not tlc_ok(code, out):
            raise Inconclusive("lock trace validation failed:\n" + out[-2000:])
        bad = printed(out, "BAD")[0]
        bad = list(bad.values()) if isinstance(bad, dict) else bad
        stat = printed(out, "STAT")[0]
        if stat["parked"] < 100:
            raise Inconclusive("only %d probes reached their hook point (hooks removed?)" % stat["parked"])
        tl = open(tf).read().splitlines()
        viol, seen = 0, set()
        for b in bad:
            e = json.loads(tl[b["line"] - 1])
            key = (tuple(sorted(b["defects"])), e["kind"], e["holder"], e["hook"]) if len(seen) < 6 else (tuple(sorted(b["defects"])),)
            if key in seen:
                continue
            seen.add(key)
            viol += 1
            path = write_replay(prop, "lock_%d" % viol, {"property": prop, "case": e, "defects": b["defects"], "how": "harness lock-probe"})
            print("VIOLATION property=%s replay=%s" % (prop, path))
            print("  %s: holder %s parked at %s, other %s: %s %s" % (e["kind"], e["holder"], e["hook"], e["other"], b["defects"], e["panic"][:150]))
        sample = json.loads(next(l for l in tl if '"blocked":true' in l))
        calls = sum(json.loads(l)["calls"] for l in tl if '"kind":"stress"' in l)
        cov = {"evaluations": stat["lines"] + calls, "distinct_nontrivial": stat["parked"],
               "rule": "lock-order probes = 12 (holder operation, hook point) x 23 other operations, each on a fresh real stack; distinct = probes whose holder reached its hook point (holding the lock); "
                       "plus free-running rounds (%d operations)" % calls,
               "samples": [sample], "probes_other_blocked_while_held": stat["blocked"], "stress_rounds": stat["stress"], "lockorder_states": states, "bad": len(bad),
               "checker_cmd": "tlc LockOrder.tla (deadlock check); harness lock-probe; tlc LockTrace.tla"}
        # teardown / entity removal parked inside its loops while messages of the same and of another peer are processed:
        # both complete and the registries are those of a serial order (a skipped entity or entry shows there)
        import pairs
        pr = pairs.execute(prop, tier, seed, sc, topo, kinds="disconnect,entrem")
        viol += pr["viol"]
        cov["pair_probes"] = pr["cov"]
        import glob, suite
        sr = suite.execute(prop, sc, [(f, None) for x in files for f in glob.glob(x + ".st.*")])
        viol += sr["viol"]
        cov["suite_trace"] = sr["cov"]
        write_evidence(prop, tier, seed, "exploration", cov, ASSUME, time.time() - t0, viol)
        log("[%s] %s: %d probes (%d parked, %d with the other operation blocked meanwhile), %d stress rounds, %d bad, %.1fs" % (prop, tier, stat["lines"] - stat["stress"], stat["parked"], stat["blocked"], stat["stress"], len(bad), time.time() - t0))
        return 1 if viol else 0
    finally:
        sc.close()
