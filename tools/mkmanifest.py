#!/usr/bin/env python3
"""Regenerates /verif/MANIFEST.json from the table below (kept valid at all times)."""
import json, os, subprocess
V = os.path.dirname(os.path.dirname(os.path.abspath(__file__)))
props = [json.loads(l) for l in open(os.path.join(V, "properties.jsonl"))]
CORE_NOTE = ("Trusted: TLC, the Go toolchain, the harness' abstraction of datagrams/events and its projection through public getters "
             "(demonstrated per run by the binding self-test: a corrupted trace line is rejected). Bounds: 2 peers (3 in one thorough config) with identical "
             "numbering, 4 local server/client features on 2 entities, 5 announced remote features + unknown addresses; histories as deep as the configs say. "
             "Larger constants are argued by the small-scope hypothesis only.")
CHECKS = {
    "C03": ("model_checking", "7 C03",
            "TLC checks WriteEffectOnlyIfGate / WriteAppliedIfGate on every transition of SpineCore; the BFS transition cover, full history trees over a tiny alphabet and seeded random behaviours over bind/unbind/disconnect/entity removal/write are replayed on the real stack and every step's data, complete writer logs of all peers and events are validated against the spec by the CoreTrace monitor.",
            "TLA+ spec (SpineCore) + TLC exhaustive check + TLC-generated behaviours replayed on the code + TLC trace validation"),
    "C08": ("model_checking", "7 C08",
            "TLC checks FanoutExact, DeleteExact, RegistryWellFormed, ResponseDiscipline over SpineCore; generated subscribe/unsubscribe/data-change histories (valid and invalid argument variants, omitted device parts) are replayed on the real stack; registry, result datagrams, notifications per connection, events and id distinctness are validated per step.",
            "TLA+ spec (SpineCore) + TLC exhaustive check + TLC-generated behaviours replayed on the code + TLC trace validation"),
    "C09": ("model_checking", "7 C09",
            "TLC proves AtMostOneBindingPerServer and DeleteExact over SpineCore for all histories within the bounds; generated bind/unbind histories (all invalid variants) are replayed on the real stack and registry, results, events, reported list and ids validated per step. The two-request interleaving is decided by the schedule check (Registry module) once built.",
            "TLA+ spec (SpineCore) + TLC exhaustive check + TLC-generated behaviours replayed on the code + TLC trace validation"),
    "C10": ("model_checking", "7 C10",
            "TLC checks TeardownIsolated, DisconnectComplete, RemovalEventsExact, NoDangling over SpineCore; generated histories in which two peers with identical numbering subscribe, bind, are subscribed/bound to by a local client feature, then disconnect or lose entities at every point, are replayed; the full projected state of all peers, events, and the writer of the removed connection are validated per step.",
            "TLA+ spec (SpineCore) + TLC exhaustive check + TLC-generated behaviours replayed on the code + TLC trace validation"),
}
REASON_TODO = "check not built yet (work in progress, see DESIGN.md section 11)"
head = subprocess.run(["git", "-C", "/repo", "log", "--format=%h %s"], capture_output=True, text=True).stdout.splitlines()
hooks = [l.split()[0] for l in head if l.split(" ", 1)[1].startswith("verif:")]
m = {
    "version": 1,
    "setup_cmd": "cd /verif/harness && cp /repo/go.sum . && GOFLAGS=-mod=mod GOPROXY=off GOSUMDB=off GOTOOLCHAIN=local go build -tags verif -o bin/harness . && cd /verif && python3 tools/sany_all.py",
    "hooks": {"guard": "verif", "enable": "go build -tags verif (harness module /verif/harness, replace github.com/enbility/spine-go => /repo)",
              "baseline_off_cmd": "cd /repo && GOFLAGS=-mod=mod GOPROXY=off GOSUMDB=off GOTOOLCHAIN=local go test -json -vet=off -count=1 -timeout 25m ./...",
              "source_commits": hooks, "add_only": True},
    "engines": [
        {"name": "tlc", "path": "/opt/veriftools/tla/tla2tools.jar", "serves_properties": sorted(CHECKS), "kind_free_text": "TLC 1.8 explicit-state model checker: exhaustive check of spec/*.tla, behaviour generation, trace validation"},
        {"name": "harness", "path": "/verif/harness", "serves_properties": sorted(CHECKS), "kind_free_text": "Go module built -tags verif against /repo: executes TLC-generated behaviours and schedules on the real code, records ndjson traces"},
    ],
    "checks": [],
    "notes": "All verdicts come from executions of the real code validated against the TLA+ specification; exit 2 = inconclusive (never a violation). Known findings: /verif/known_findings.json.",
    "not_applicable": [],
}
for p in props:
    pid = p["id"]
    if pid in CHECKS:
        level, ref, text, tech = CHECKS[pid]
        m["checks"].append({"property_id": pid, "quick_cmd": "./check %s quick" % pid, "thorough_cmd": "./check %s thorough" % pid,
                            "evidence_file": "/verif/evidence/%s.json" % pid, "replay_cmd_template": "./check %s --replay {path}" % pid,
                            "engine": "tlc+harness", "level_claimed": {"category": level, "text": text, "design_ref": "DESIGN.md section " + ref},
                            "level_note": CORE_NOTE, "technique": tech})
    else:
        m["not_applicable"].append({"property_id": pid, "reason": REASON_TODO})
json.dump(m, open(os.path.join(V, "MANIFEST.json"), "w"), indent=1)
print("checks:", len(m["checks"]), "n/a:", len(m["not_applicable"]))
