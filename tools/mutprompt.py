#!/usr/bin/env python3
"""Print the sub-agent prompt for seeding a property-breaking change (only the property text is given)."""
import json,sys
pid=sys.argv[1]
ids=sys.argv[2] if len(sys.argv)>2 else "ab"   # letters of the two mutations to deliver
import os
used=[]
for d in sorted(os.listdir('/verif/seeded')):
    if d.startswith(pid):
        try: used.append(json.load(open('/verif/seeded/%s/meta.json'%d))['summary'][:260])
        except Exception: pass
avoid=("\nIdeas that were used already and must NOT be repeated (choose different sites and mechanisms):\n"+"\n".join(" - "+u for u in used)+"\n") if used and ids!="ab" else ""
p=[json.loads(l) for l in open('/verif/properties.jsonl') if json.loads(l)['id']==pid][0]
wt=f"/tmp/mut/wt_{pid}"
out=f"/tmp/mut/out"
print(f"""You are helping to evaluate how well a verification suite detects realistic bugs. In the directory {wt} there is a git worktree (detached HEAD) of the Go repository enbility/spine-go (an implementation of the EEBUS SPINE protocol: data model, local/remote device-entity-feature tree, read/write/notify handling, subscriptions, bindings, heartbeats).

Work ONLY inside {wt} and the output directory {out}. Do not read or touch /repo, /verif or any other directory. There is no network. Use this environment in every shell call:
export GOFLAGS=-mod=mod GOPROXY=off GOSUMDB=off GOTOOLCHAIN=local GOCACHE=/tmp/mut/gocache_{pid}

PROPERTY {pid} — {p['title']}
Statement: {p['statement']}
Quantified over: {p['quantifier']['text']}
Code the property is anchored in: {', '.join(p['anchors']['files'])}

TASK: produce TWO different, independent source changes ("mutations" {ids[0]} and {ids[1]}) to non-test Go files of the repository, each of which breaks this property while
 (1) still compiling (`go build ./...`), and
 (2) still passing the complete existing test suite, unedited (`go test -vet=off -count=1 ./...`).
Each must be a realistic bug a maintainer could plausibly introduce (refactoring slip, wrong comparison, comparing the wrong address part, missing or misplaced lock, off-by-one, incomplete cleanup, stale cache, wrong error path, early return ...), small (about 1-15 changed lines), and SUBTLE: it must not be exposed at once by ordinary single-step use, but need something specific to manifest - a particular interleaving, a fault at a particular point, a multi-step sequence of operations, an unusual input, or two cooperating sites that each look fine alone. The two mutations should be in different functions and of different character.{avoid}
Do not modify files named verif_on.go / verif_off.go and do not remove or move lines calling verifPoint(...) (instrumentation; leave as is). Do not deliver a change whose only effect is a Go data race without a functional, observable consequence. The unmodified code may itself already deviate from the property in some corner; that does not matter - your mutation must introduce a NEW violation that your demonstration exposes (demo passes at HEAD, fails with the patch).

DELIVER for each mutation X in {{{ids[0]}, {ids[1]}}} the directory {out}/{pid}X/ containing:
 - patch.diff : output of `git diff` (against HEAD) of the change; non-test files only.
 - demo_test.go : a Go test file that FAILS with the mutation applied and PASSES on unmodified HEAD. First line must be a comment saying where it has to be placed, e.g. `// place in: spine/`. It must be deterministic - no flaky timing; if an interleaving is needed force it (channels, sync, the exported hook of verif_on.go under -tags verif if you want) or make it certain. Use package spine (internal test) or an external test package, whatever is convenient; it may use the mocks package and testify as the existing tests do.
 - meta.json : {{"property": "{pid}", "summary": "<what the change does>", "needs": "<what is needed for the violation to manifest>", "files": ["..."], "demo_place": "spine/", "demo_run": "go test -vet=off -count=1 -run '<TestName>' ./spine/"}}

PROCEDURE: read the anchor code (be economical, do not read the whole repository); design the mutation; apply it; run `go build ./... && go test -vet=off -count=1 ./...` (must pass); place the demo and run it (must fail); save `git diff` of non-test files as patch.diff; revert (`git checkout -- .`, delete the demo file) and run the demo on clean HEAD (copy it in, run, must pass, delete it again). At the end the worktree must be clean: `git status --short` prints nothing. Then repeat for the second mutation.
Final answer: a short description of both mutations, what each needs to manifest, and explicit confirmation of each verification step (build ok / suite passes with patch / demo fails with patch / demo passes without).""")
