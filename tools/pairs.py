"""Pair probes (spec/PairTrace.tla): an operation parked mid-way at a hook point, another operation run meanwhile; the final state must be
that of one of the two serial orders according to SpineCore."""
import json, os
from vlib import *
import core


def execute(prop, tier, seed, sc, topo, kinds=""):
    open(sc.path("topo.json"), "w").write(topo)
    n = NCPU
    files = [sc.path("pp%d" % i) for i in range(n)]
    pmap(lambda i: run_harness(["pair-probe", "-topo", sc.path("topo.json"), "-out", files[i], "-shard", str(i), "-shards", str(n), "-kinds", kinds], timeout=3000), list(range(n)))
    tf = sc.path("pairs_all")
    with open(tf, "w") as f:
        for x in files:
            f.write(open(x).read())
    c = core.consts(rich=core.ALL_RICH, maxval=3)
    code, out = run_tlc("PairTrace.tla", cfg_text("Spec", c, invariants=["Final"]), timeout=1800, env={"VERIF_TRACE": tf}, light=True, heap="4g")
    if not tlc_ok(code, out):
        raise Inconclusive("pair trace validation failed:\n" + out[-2500:])
    bad = printed(out, "BAD")[0]
    bad = list(bad.values()) if isinstance(bad, dict) else bad
    stat = printed(out, "STAT")[0]
    if stat["parked"] < (40 if not kinds else 10):
        raise Inconclusive("only %d pair probes reached their hook point" % stat["parked"])
    tl = open(tf).read().splitlines()
    viol, seen = 0, set()
    for b in bad:
        e = json.loads(tl[b["line"] - 1])
        key = (tuple(sorted(b["defects"])), e["holder"], e["hook"])
        if key in seen:
            continue
        seen.add(key)
        viol += 1
        path = write_replay(prop, "pair_%d" % viol, {"property": prop, "holder": e["a"], "hook": e["hook"], "other": e["b"], "defects": b["defects"],
                            "pre": {k: e["pre"][k] for k in ("subs", "binds", "csub")}, "post": {k: e["post"][k] for k in ("subs", "binds", "csub", "conn")}})
        print("VIOLATION property=%s replay=%s" % (prop, path))
        print("  %s parked at %s while %s runs: %s" % (json.dumps(e["a"]), e["hook"], json.dumps(e["b"]), b["defects"]))
    log("[%s] pair probes: %d (%d parked, %d with the other operation blocked meanwhile), %d bad" % (prop, stat["lines"], stat["parked"], stat["blocked"], len(bad)))
    return {"viol": viol, "cov": {"pair_probes": stat["lines"], "parked": stat["parked"], "other_blocked_while_parked": stat["blocked"], "bad": len(bad)}}
