"""Per-property profiles: which slice of the specification is explored, replayed and compared."""
import core

DISC = ["connect", "discover", "disconnect"]

CORE = {
    "C01": {
        "approval": True,     # writes that wait for the application's approval: exactly one result each
        "write_results": True,  # writes decided by the data layer (protected elements ...): error result with and without ackRequest
        "checked": ["out", "panic", "dupout", "rdata", "data", "late"],
        "assumptions": [
            "the datagram is well formed: one command, classifier present, classifier and payload consistent (a result carries resultData, a request does not); the rest belongs to C05",
            "the source feature is an announced feature of a connected peer",
            "discovery replies/notifications are the inputs discover/entadd/entrem; subscription and binding calls are the inputs sub/bind/unsub/unbind",
            "whether a reply/notify addressed to a local server-role feature is accepted is not determined by any property; the specification follows the code (accepted)",
            "only replies and results are compared (the read request that follows a rejected notify is an originated request, followed not checked)",
        ],
        "quick": {
            "mc": [{"acts": DISC + ["recv", "sub", "bind", "setdata"], "maxlen": 5},
                   {"acts": ["recv", "bind"], "rich": ["recv"], "maxlen": 2, "prefix": "PrefixP1"}],
            "gen": [{"acts": ["recv"], "rich": ["recv"], "maxlen": 1, "prefix": "PrefixP1P2"},
                    {"acts": ["recv", "sub", "bind", "setdata"], "maxlen": 3, "prefix": "PrefixP1"},
                    {"acts": ["recv", "bind", "entrem"], "tiny": ["bind"], "maxlen": 2, "prefix": "PrefixP1P2"}],
            "sim": [{"acts": DISC + ["recv", "sub", "bind", "unbind", "setdata", "entrem", "entadd", "read", "write", "listsubs"], "rich": ["read"], "maxlen": 25, "num": 200}],
            "cap": 40000,
        },
        "thorough": {
            "mc": [{"acts": DISC + ["recv", "sub", "bind", "setdata"], "maxlen": 6},
                   {"acts": ["recv", "bind", "sub"], "rich": ["recv"], "maxlen": 3, "prefix": "PrefixP1"}],
            "gen": [{"acts": ["recv", "bind", "sub"], "tiny": ["bind", "sub"], "rich": ["recv"], "maxlen": 2, "prefix": "PrefixP1P2"},
                    {"acts": ["recv", "sub", "bind", "setdata", "entrem", "disconnect"], "maxlen": 4, "prefix": "PrefixP1P2"}],
            "sim": [{"acts": DISC + ["recv", "sub", "bind", "unbind", "setdata", "entrem", "entadd", "read", "write", "listsubs"], "rich": ["read", "recv"], "maxlen": 40, "num": 3000}],
            "cap": 400000,
        },
    },
    "C09": {
        "pair_probes": "bind,unbind,entrem,disconnect",     # a registry operation parked mid-way, another peer's operation meanwhile: serial outcome
        "race": True,
        "checked": ["binds", "out", "ev", "ret", "panic", "dupout", "dupev", "ids", "late"],
        "assumptions": [
            "peers announce distinct device addresses and use identical entity/feature numbering",
            "a request names the requesting peer's own device address or omits it (SPINE 7.4.4); another device's address is outside the domain",
            "sequential histories through SpineCore; all interleavings of two (thorough: three) concurrent requests for one server feature on different connections are forced through the gate after the single-binding check (CheckThenAct)",
        ],
        "quick": {
            "mc": [{"acts": DISC + ["bind", "unbind", "entrem", "entadd", "listbinds"], "maxlen": 7},
                   {"acts": ["bind", "unbind", "listbinds", "disconnect"], "rich": ["bind", "unbind"], "maxlen": 3, "prefix": "PrefixP1P2"}],
            "gen": [{"acts": ["bind", "unbind", "listbinds", "disconnect", "entrem"], "maxlen": 3, "prefix": "PrefixP1P2"},
                    {"acts": ["bind", "unbind"], "rich": ["bind"], "maxlen": 2, "prefix": "PrefixP1"},
                    {"acts": ["bind", "unbind"], "rich": ["unbind"], "maxlen": 2, "prefix": "PrefixP1"},
                    # (both peers connected: a delete of one peer that names the other peer's device and entry)
                    {"acts": ["bind", "unbind"], "rich": ["unbind"], "tiny": ["bind"], "maxlen": 2, "prefix": "PrefixP1P2"},
                    {"acts": ["bind", "unbind", "listbinds"], "tiny": ["bind", "unbind"], "maxlen": 4, "prefix": "PrefixP1", "view": None},
                    {"acts": ["bind", "unbind", "disconnect", "entrem"], "maxlen": 4, "prefix": "PrefixP1P2", "ghost": 2}],
            "sim": [{"acts": DISC + ["bind", "unbind", "listbinds", "entrem", "entadd"], "rich": ["unbind", "listbinds"], "maxlen": 16, "num": 150}],
            "cap": 40000,
        },
        "thorough": {
            "mc": [{"acts": DISC + ["bind", "unbind", "entrem", "entadd", "listbinds"], "maxlen": 9},
                   {"acts": ["bind", "unbind", "listbinds", "disconnect"], "rich": ["bind", "unbind"], "maxlen": 4, "prefix": "PrefixP1P2"}],
            "gen": [{"acts": ["bind", "unbind", "listbinds", "disconnect", "entrem", "entadd"], "maxlen": 5, "prefix": "PrefixP1P2"},
                    {"acts": ["bind", "unbind", "listbinds"], "rich": ["bind", "unbind"], "maxlen": 3, "prefix": "PrefixP1P2"}],
            "sim": [{"acts": DISC + ["bind", "unbind", "listbinds", "entrem", "entadd"], "rich": ["unbind", "listbinds"], "maxlen": 30, "num": 3000}],
            "cap": 400000,
        },
    },
    "C06": {
        "checked": ["known", "ev", "out", "subs", "binds", "csub", "cbind", "conn", "rdata", "panic", "dupout", "dupev", "resolve", "tree", "late"],
        "assumptions": [
            "every discovery reply and full notification contains entity [0] with the node management feature (without it the peer's node management is wiped: a robustness input, C05)",
            "an entity appears at most once per message; a feature's type and role are fixed per address, its description and operations vary (two versions)",
            "a full notification: whether entities that stay get their features refreshed, and whether a notification that changes nothing is acknowledged or rejected, is not determined by the property - both outcomes are allowed",
            "entity addresses 1, 2 and the nested 1.1 with up to four features each",
        ],
        "quick": {
            "mc": [{"acts": ["connect", "disconnect", "ann"], "peers": ["p1"], "maxlen": 3},
                   {"acts": ["ann", "sub", "bind", "lsub"], "tiny": ["ann", "sub", "bind"], "maxlen": 4, "prefix": "PrefixP1"}],
            "gen": [{"acts": DISC + ["entrem", "entadd"], "maxlen": 5, "peers": ["p1"], "view": None},
                    {"acts": ["ann"], "maxlen": 3, "prefix": "PrefixP1"},
                    {"acts": ["ann", "sub", "bind", "lsub", "lbind"], "tiny": ["ann", "sub", "bind"], "maxlen": 3, "prefix": "PrefixP1P2"},
                    {"acts": ["connect", "ann"], "tiny": ["ann"], "maxlen": 3},
                    # address variants (device part omitted) with client-side references in place
                    {"acts": ["ann", "lsub", "lbind"], "tiny": ["ann"], "rich": ["ann"], "maxlen": 3, "prefix": "PrefixP1"},
                    {"acts": ["lsub", "lbind", "sub", "bind", "entrem", "entadd"], "tiny": ["sub", "bind"], "rich": ["entrem", "entadd"], "maxlen": 3, "prefix": "PrefixP1"}],
            "sim": [{"acts": DISC + ["ann", "sub", "bind", "lsub", "lbind", "entrem", "entadd"], "tiny": ["sub", "bind"], "maxlen": 20, "num": 60}],
            "cap": 40000,
        },
        "thorough": {
            "mc": [{"acts": ["connect", "disconnect", "ann"], "peers": ["p1"], "maxlen": 4},
                   {"acts": ["ann", "sub", "bind", "lsub"], "tiny": ["ann", "sub", "bind"], "maxlen": 5, "prefix": "PrefixP1P2"}],
            "gen": [{"acts": ["ann"], "rich": ["ann"], "maxlen": 3, "prefix": "PrefixP1"},
                    {"acts": ["ann", "sub", "bind", "lsub", "lbind"], "tiny": ["ann", "sub", "bind"], "maxlen": 4, "prefix": "PrefixP1P2"},
                    {"acts": ["connect", "disconnect", "ann"], "tiny": ["ann"], "maxlen": 4},
                    {"acts": ["ann", "lsub", "lbind", "sub", "bind"], "tiny": ["ann", "sub", "bind"], "rich": ["ann"], "maxlen": 4, "prefix": "PrefixP1"},
                    {"acts": ["lsub", "lbind", "sub", "bind", "entrem", "entadd"], "tiny": ["sub", "bind"], "rich": ["entrem", "entadd"], "maxlen": 4, "prefix": "PrefixP1P2"}],
            "sim": [{"acts": DISC + ["ann", "sub", "bind", "lsub", "lbind", "entrem", "entadd"], "rich": ["entrem", "entadd"], "tiny": ["sub", "bind"], "maxlen": 30, "num": 600}],
            "cap": 400000,
        },
    },
    "C14": {
        "checked": ["cbf", "dupcb", "ret", "reqs", "out", "rdata", "panic", "dupout", "late"],
        "assumptions": [
            "distinct callbacks are distinct function literals (the stack identifies 'the same callback' by code pointer)",
            "replies and results carry a msgCounterReference; message counters of different connections are kept apart by the harness so that a reference identifies one request",
            "callbacks run in goroutines of the stack; 'exactly once / never' is read at quiescence (goroutine count back at the baseline), never after a fixed sleep",
            "a result callback is registered at most once per feature in generated histories",
            "registrations concurrent with arrivals are covered by the free-running stress of the C17 check, not here",
        ],
        "quick": {
            "mc": [{"acts": ["lreq", "addcb", "addrcb", "cbrecv"], "maxlen": 5, "prefix": "PrefixP1", "maxreq": 2}],
            "gen": [{"acts": ["lreq", "addcb", "addrcb", "cbrecv"], "maxlen": 5, "prefix": "PrefixP1", "maxreq": 2},
                    {"acts": ["lreq", "addcb", "cbrecv"], "maxlen": 4, "prefix": "PrefixP1P2", "maxreq": 2},
                    {"acts": ["lreq", "addcb", "cbrecv"], "tiny": ["cbrecv"], "maxlen": 4, "prefix": "PrefixP1", "maxreq": 2, "view": None},
                    # answers out of order: states that differ only in whether callbacks fired before are kept apart (ghost)
                    {"acts": ["lreq", "addcb", "cbrecv"], "tiny": ["cbrecv"], "maxlen": 6, "prefix": "PrefixP1P2", "maxreq": 2, "ghost": 2}],
            "sim": [{"acts": DISC + ["lreq", "addcb", "addrcb", "cbrecv", "entadd", "setdata"], "maxlen": 25, "num": 300, "maxreq": 3}],
            "cap": 40000,
        },
        "thorough": {
            "mc": [{"acts": ["lreq", "addcb", "addrcb", "cbrecv"], "maxlen": 6, "prefix": "PrefixP1P2", "maxreq": 2}],
            "gen": [{"acts": ["lreq", "addcb", "addrcb", "cbrecv"], "maxlen": 6, "prefix": "PrefixP1", "maxreq": 2},
                    {"acts": ["lreq", "addcb", "addrcb", "cbrecv"], "maxlen": 5, "prefix": "PrefixP1P2", "maxreq": 2},
                    {"acts": ["lreq", "addcb", "addrcb", "cbrecv"], "maxlen": 7, "prefix": "PrefixP1P2", "maxreq": 2, "ghost": 3}],
            "sim": [{"acts": DISC + ["lreq", "addcb", "addrcb", "cbrecv", "entadd", "setdata", "recv"], "maxlen": 40, "num": 3000, "maxreq": 3}],
            "cap": 400000,
        },
    },
    "C20": {
        "race": True,
        "checked": ["ucs", "hasuc", "out", "ret", "panic", "dupout", "late", "ucsnap"],
        "assumptions": [
            "sequential histories through SpineCore; all interleavings of two (thorough: three) concurrent read-modify-write cycles on different entities are forced through the gate between copy and store (CheckThenAct)",
            "2 entities x 2 actors x 2 names x 2 versions x availability x 2 scenario lists",
            "every change of the registry is a data change of the node management feature and is notified to its subscribers (C08); the notification content is compared too",
        ],
        "quick": {
            "mc": [{"acts": ["adduc", "remuc", "setav", "remall", "readuc"], "maxlen": 4, "prefix": "PrefixP1"},
                   {"acts": ["adduc", "remuc", "setav", "remall"], "rich": ["adduc"], "tiny": ["adduc"], "maxlen": 5, "prefix": "PrefixP1"}],
            "gen": [{"acts": ["adduc", "remuc", "setav", "remall", "readuc"], "maxlen": 3, "prefix": "PrefixP1"},
                    {"acts": ["adduc", "remuc", "setav", "remall", "readuc"], "rich": ["adduc"], "tiny": ["adduc"], "maxlen": 4, "prefix": "PrefixP1"},
                    {"acts": ["adduc", "remuc", "setav", "remall"], "tiny": ["adduc"], "maxlen": 4, "prefix": "PrefixP1", "view": None}],
            "sim": [{"acts": DISC + ["adduc", "remuc", "setav", "remall", "readuc", "sub", "unsub"], "rich": ["adduc"], "maxlen": 30, "num": 200}],
            "cap": 40000,
        },
        "thorough": {
            "mc": [{"acts": ["adduc", "remuc", "setav", "remall", "readuc"], "rich": ["adduc"], "maxlen": 4, "prefix": "PrefixP1"}],
            "gen": [{"acts": ["adduc", "remuc", "setav", "remall", "readuc"], "maxlen": 4, "prefix": "PrefixP1"},
                    {"acts": ["adduc", "remuc", "setav", "remall", "readuc"], "rich": ["adduc"], "tiny": ["adduc"], "maxlen": 5, "prefix": "PrefixP1"},
                    {"acts": ["adduc", "remuc", "setav", "remall"], "tiny": ["adduc"], "maxlen": 5, "prefix": "PrefixP1", "view": None}],
            "sim": [{"acts": DISC + ["adduc", "remuc", "setav", "remall", "readuc", "sub", "unsub"], "rich": ["adduc"], "maxlen": 50, "num": 3000}],
            "cap": 400000,
        },
    },
    "C08": {
        "pair_probes": "sub,unsub,entrem,disconnect",     # a registry operation parked mid-way, another peer's operation meanwhile: serial outcome
        "checked": ["subs", "out", "ev", "ret", "panic", "dupout", "dupev", "ids", "late"],
        "assumptions": [
            "peers announce distinct device addresses and use identical entity/feature numbering",
            "a request names the requesting peer's own device address or omits it (SPINE 7.4.4); a delete naming another peer's device is outside the domain",
            "data changes are full SetData calls and accepted full writes of a one-item list (list content rules belong to C02/C04)",
        ],
        "quick": {
            "mc": [{"acts": DISC + ["sub", "unsub", "entrem", "setdata", "listsubs"], "maxlen": 6},
                   {"acts": ["sub", "unsub", "listsubs", "disconnect"], "rich": ["sub", "unsub"], "maxlen": 3, "prefix": "PrefixP1P2"}],
            "gen": [{"acts": ["connect", "presub", "discover", "disconnect", "entrem"], "maxlen": 5, "view": None, "peers": ["p1"]},
                    {"acts": ["sub", "unsub", "listsubs", "disconnect", "entrem", "setdata"], "maxlen": 2, "prefix": "PrefixP1P2"},
                    {"acts": ["sub", "unsub"], "rich": ["sub"], "maxlen": 2, "prefix": "PrefixP1"},
                    {"acts": ["sub", "unsub"], "rich": ["unsub"], "maxlen": 2, "prefix": "PrefixP1"},
                    {"acts": ["sub", "unsub"], "rich": ["unsub"], "tiny": ["sub"], "maxlen": 2, "prefix": "PrefixP1P2"},
                    {"acts": ["sub", "unsub", "listsubs"], "tiny": ["sub", "unsub"], "maxlen": 4, "prefix": "PrefixP1", "view": None},
                    {"acts": ["sub", "unsub", "setdata", "bind", "write"], "rich": ["setdata"], "maxlen": 3, "prefix": "PrefixP1P2"}],
            "sim": [{"acts": DISC + ["sub", "unsub", "listsubs", "entrem", "entadd", "setdata", "bind", "write"], "rich": ["unsub", "listsubs", "setdata"], "maxlen": 20, "num": 150}],
            # fault at the SHIP boundary: one of the two peers is mute (sends to it fail); the other one's notifications must not depend on it
            "faults": [{"acts": ["sub", "setdata"], "tiny": ["sub"], "maxlen": 3, "prefix": "PrefixM1P2", "peers": ["m1", "p2"], "view": None},
                       {"acts": ["sub", "setdata"], "tiny": ["sub"], "maxlen": 3, "prefix": "PrefixP1M2", "peers": ["p1", "m2"], "view": None}],
            "cap": 40000,
        },
        "thorough": {
            "mc": [{"acts": DISC + ["sub", "unsub", "entrem", "entadd", "setdata", "listsubs"], "maxlen": 7},
                   {"acts": ["sub", "unsub", "listsubs", "disconnect"], "rich": ["sub", "unsub"], "maxlen": 4, "prefix": "PrefixP1P2"}],
            "gen": [{"acts": ["sub", "unsub", "listsubs", "disconnect", "entrem", "entadd", "setdata"], "maxlen": 4, "prefix": "PrefixP1P2"},
                    {"acts": ["sub", "unsub", "listsubs"], "rich": ["sub", "unsub"], "maxlen": 3, "prefix": "PrefixP1P2"},
                    {"acts": ["sub", "unsub", "bind", "write", "setdata"], "rich": ["setdata"], "maxlen": 4, "prefix": "PrefixP1P2"}],
            "sim": [{"acts": DISC + ["sub", "unsub", "listsubs", "entrem", "entadd", "setdata", "bind", "write"], "rich": ["unsub", "listsubs", "setdata"], "maxlen": 30, "num": 3000}],
            "faults": [{"acts": ["sub", "unsub", "setdata", "bind", "write"], "tiny": ["sub", "unsub", "bind"], "maxlen": 4, "prefix": "PrefixM1P2", "peers": ["m1", "p2"], "cap": 60000},
                       {"acts": ["sub", "unsub", "setdata", "bind", "write"], "tiny": ["sub", "unsub", "bind"], "maxlen": 4, "prefix": "PrefixP1M2", "peers": ["p1", "m2"], "cap": 60000},
                       {"acts": ["sub", "setdata"], "tiny": ["sub"], "maxlen": 4, "prefix": "PrefixM1P2", "peers": ["m1", "p2"], "view": None, "cap": 60000}],
            "cap": 400000,
        },
    },
    "C10": {
        "approval_disconnect": True,
        "pair_probes": True,
        "checked": core.ALL_COMPS,
        "assumptions": [
            "peers announce distinct device addresses and use identical entity/feature numbering",
            "pending write approvals: the connection is removed while writes are pending approval at sampled points of forced Approval schedules (timeouts that have elapsed included); nothing may be written to the removed connection afterwards",
            "the entity removed by a notification is never the device-information entity [0] (that is a robustness input, C05)",
            "'while messages of other peers are being processed': 96 pair probes park a teardown / registry operation of one peer at a hook point inside its critical section, run an operation of another peer, and require the final state to be that of a serial order (PairTrace)",
        ],
        "quick": {
            "mc": [{"acts": DISC + ["sub", "bind", "lsub", "lbind", "entrem", "entadd", "setdata"], "maxlen": 7}],
            "gen": [{"acts": ["connect", "presub", "discover", "disconnect", "entrem", "setdata"], "maxlen": 5, "view": None, "peers": ["p1"]},
                    {"acts": ["sub", "bind", "lsub", "lbind", "disconnect", "entrem", "setdata", "write", "listsubs", "listbinds"], "maxlen": 3, "prefix": "PrefixP1P2"},
                    {"acts": DISC + ["sub", "bind", "lsub", "entrem", "entadd"], "rich": ["disconnect", "entrem", "entadd"], "maxlen": 4, "prefix": "PrefixP1"},
                    {"acts": ["sub", "bind", "disconnect", "entrem"], "maxlen": 3, "prefix": "PrefixP1P2", "ghost": 2},
                    # nested entity [1,1] announced and removed below [1] with registry entries in place
                    {"acts": ["ann", "bind", "sub", "lsub"], "tiny": ["ann", "bind", "sub"], "maxlen": 3, "prefix": "PrefixP1"}],
            "sim": [{"acts": DISC + ["sub", "unsub", "bind", "unbind", "lsub", "lbind", "lunsub", "lunbind", "entrem", "entadd", "setdata", "write", "listsubs", "listbinds"],
                     "rich": ["disconnect", "entrem", "entadd", "lsub", "lbind", "lunsub", "lunbind"], "maxlen": 25, "num": 200}],
            "cap": 40000,
        },
        "thorough": {
            "mc": [{"acts": DISC + ["sub", "bind", "lsub", "lbind", "entrem", "entadd", "setdata"], "maxlen": 9},
                   {"peers": ["p1", "p2", "p3"], "acts": DISC + ["sub", "bind", "lsub", "entrem"], "maxlen": 9}],
            "gen": [{"acts": ["sub", "bind", "lsub", "lbind", "disconnect", "entrem", "entadd", "setdata", "write", "listsubs", "listbinds"], "maxlen": 5, "prefix": "PrefixP1P2"},
                    {"acts": DISC + ["sub", "bind", "lsub", "entrem", "entadd"], "rich": ["disconnect", "entrem", "entadd"], "maxlen": 6, "prefix": "PrefixP1"},
                    {"acts": ["ann", "bind", "sub", "lsub", "lbind"], "tiny": ["ann", "bind", "sub"], "maxlen": 4, "prefix": "PrefixP1P2"}],
            "sim": [{"acts": DISC + ["sub", "unsub", "bind", "unbind", "lsub", "lbind", "lunsub", "lunbind", "entrem", "entadd", "setdata", "write", "listsubs", "listbinds"],
                     "rich": ["disconnect", "entrem", "entadd", "lsub", "lbind", "lunsub", "lunbind"], "maxlen": 40, "num": 4000}],
            "cap": 400000,
        },
    },
    "C03": {
        "pair_probes": "bind,unbind,entrem,disconnect",     # a registry operation parked mid-way, another peer's operation meanwhile: serial outcome
        "checked": ["data", "out", "ev", "ret", "panic", "dupout", "dupev", "late", "announce"],
        "assumptions": [
            "the writer is an announced feature of a connected peer or an unannounced address of a connected peer (then the write is dropped)",
            "writes are full writes of a one-item list whose item is changeable (write shapes and write protection belong to C04)",
            "the binding registry is followed from the code: a binding wrongly granted or removed is attributed to C09/C10, not C03",
        ],
        "quick": {
            "mc": [{"acts": DISC + ["bind", "unbind", "entrem", "entadd", "write", "sub"], "maxlen": 6},
                   {"acts": ["bind", "unbind", "write", "disconnect"], "rich": ["write"], "maxlen": 3, "prefix": "PrefixP1P2"}],
            "gen": [{"acts": ["bind", "unbind", "write", "disconnect", "connect", "discover"], "tiny": ["bind", "unbind"], "maxlen": 5, "peers": ["p1"], "prefix": "PrefixP1", "ghost": 2},
                    {"acts": ["bind", "unbind", "disconnect", "entrem", "entadd", "write", "sub"], "maxlen": 3, "prefix": "PrefixP1P2"},
                    {"acts": ["bind", "write"], "rich": ["write"], "maxlen": 2, "prefix": "PrefixP1"},
                    {"acts": DISC + ["bind", "unbind", "entrem", "write"], "maxlen": 5, "prefix": "PrefixP1", "ghost": 2}],
            "sim": [{"acts": DISC + ["bind", "unbind", "entrem", "entadd", "write", "sub", "setdata"], "rich": ["disconnect"], "maxlen": 25, "num": 200}],
            "cap": 40000,
        },
        "thorough": {
            "mc": [{"acts": DISC + ["bind", "unbind", "entrem", "entadd", "write", "sub"], "maxlen": 8, "maxval": 2},
                   {"acts": ["bind", "unbind", "write", "disconnect"], "rich": ["write"], "maxlen": 4, "prefix": "PrefixP1P2"}],
            "gen": [{"acts": ["bind", "unbind", "disconnect", "entrem", "entadd", "write", "sub"], "maxlen": 4, "prefix": "PrefixP1P2"},
                    {"acts": ["bind", "unbind", "write"], "rich": ["write"], "maxlen": 3, "prefix": "PrefixP1P2"}],
            "sim": [{"acts": DISC + ["bind", "unbind", "entrem", "entadd", "write", "sub", "setdata"], "rich": ["disconnect"], "maxlen": 40, "num": 4000}],
            "cap": 400000,
        },
    },
}


def core_runner(prop):
    def run(p, tier, seed, replay):
        return core.run(p, tier, seed, CORE[p], replay)
    return run


PROFILES = {p: {"run": core_runner(p)} for p in CORE}
import sender
PROFILES["C13"] = {"run": sender.run}
import approval
PROFILES["C12"] = {"run": approval.run}
import locks
PROFILES["C17"] = {"run": locks.run}
import robust
PROFILES["C05"] = {"run": robust.run}
import cmdalg
PROFILES["C18"] = {"run": cmdalg.run}
import conv
PROFILES["C19"] = {"run": conv.run}
import events
PROFILES["C15"] = {"run": events.run}
import heartbeat
PROFILES["C16"] = {"run": heartbeat.run}
import tree
PROFILES["C07"] = {"run": tree.run}
import listdata
for _p in ("C02", "C04", "C11"):
    PROFILES[_p] = {"run": listdata.run}
