"""Per-property profiles: which slice of the specification is explored, replayed and compared."""
import core

DISC = ["connect", "discover", "disconnect"]

CORE = {
    "C09": {
        "checked": ["binds", "out", "ev", "ret", "panic", "dupout", "dupev", "ids"],
        "assumptions": [
            "peers announce distinct device addresses and use identical entity/feature numbering",
            "a request names the requesting peer's own device address or omits it (SPINE 7.4.4); another device's address is outside the domain",
            "requests arrive one at a time here; the interleaving of two concurrent requests is decided by the Registry schedule check",
        ],
        "quick": {
            "mc": [{"acts": DISC + ["bind", "unbind", "entrem", "entadd", "listbinds"], "maxlen": 7},
                   {"acts": ["bind", "unbind", "listbinds", "disconnect"], "rich": ["bind", "unbind"], "maxlen": 3, "prefix": "PrefixP1P2"}],
            "gen": [{"acts": ["bind", "unbind", "listbinds", "disconnect", "entrem"], "maxlen": 4, "prefix": "PrefixP1P2"},
                    {"acts": ["bind", "unbind"], "rich": ["bind", "unbind"], "maxlen": 2, "prefix": "PrefixP1P2"}],
            "sim": [{"acts": DISC + ["bind", "unbind", "listbinds", "entrem", "entadd"], "rich": ["unbind", "listbinds"], "maxlen": 16, "num": 150}],
            "cap": 14000,
        },
        "thorough": {
            "mc": [{"acts": DISC + ["bind", "unbind", "entrem", "entadd", "listbinds"], "maxlen": 9},
                   {"acts": ["bind", "unbind", "listbinds", "disconnect"], "rich": ["bind", "unbind"], "maxlen": 4, "prefix": "PrefixP1P2"}],
            "gen": [{"acts": ["bind", "unbind", "listbinds", "disconnect", "entrem", "entadd"], "maxlen": 5, "prefix": "PrefixP1P2"},
                    {"acts": ["bind", "unbind", "listbinds"], "rich": ["bind", "unbind"], "maxlen": 3, "prefix": "PrefixP1P2"}],
            "sim": [{"acts": DISC + ["bind", "unbind", "listbinds", "entrem", "entadd"], "rich": ["unbind", "listbinds"], "maxlen": 30, "num": 3000}],
            "cap": 400000,
        },
    },
}


def core_runner(prop):
    def run(p, tier, seed, replay):
        return core.run(p, tier, seed, CORE[p], replay)
    return run


PROFILES = {p: {"run": core_runner(p)} for p in CORE}
