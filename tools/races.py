"""Forced interleavings of the check-then-act windows (spec/CheckThenAct.tla -> gates in the harness -> RaceTrace)."""
import json, os
from vlib import *
import core

MECH = {"C09": ("bind", "guard", "AddBinding check/insert window"),
        "C07": ("feature", "guard", "GetOrAddFeature miss window"),
        "C20": ("usecase", "overwrite", "use-case copy/store window")}


MECH2 = {"entity": ("entity", "overwrite", "device entity list read-modify-write (RemoveEntity / AddEntity)")}


def execute(prop, tier, sc, topo, mech=None):
    mech, kind, what = MECH2[mech] if mech else MECH[prop]
    res = {"viol": 0}
    scheds = []
    mcstates = 0
    for procs in ([{"A", "B"}] if tier == "quick" else [{"A", "B"}, {"A", "B", "C"}]):
        # the atomic design has the property for every interleaving ...
        code, out = run_tlc("CheckThenAct.tla", cfg_text("Spec", {"Procs": procs, "Kind": kind, "Atomic": True}, invariants=["Safe"]), timeout=300)
        if not tlc_ok(code, out):
            raise Inconclusive("atomic CheckThenAct violates Safe:\n" + out[-1500:])
        mcstates += tlc_stats(out)["distinct"]
        # ... and the split one yields every interleaving, among them the attack schedules
        code, out = run_tlc("CheckThenAct.tla", cfg_text("Spec", {"Procs": procs, "Kind": kind, "Atomic": False}, invariants=["EmitInv"]), timeout=300)
        if not tlc_ok(code, out):
            raise Inconclusive("schedule enumeration failed:\n" + out[-1500:])
        mcstates += tlc_stats(out)["distinct"]
        scheds += printed(out, "S")
    if mech == "entity":
        # where the removal parks: inside its clean-up (use-case removal), or behind it
        scheds = [dict(x, variant=v) for v in (0, 1) for x in scheds]
    if mech == "usecase":
        # the first process adds a use case, changes the availability of an existing one, or removes it
        scheds = [dict(x, variant=v) for v in (0, 1, 2) for x in scheds]
    open(sc.path("topo.json"), "w").write(topo)
    sf, tf = sc.path("race_scheds_%s.ndjson" % mech), sc.path("race_trace_%s.ndjson" % mech)
    open(sf, "w").write("\n".join(json.dumps(x) for x in scheds) + "\n")
    run_harness(["race-replay", "-mech", mech, "-topo", sc.path("topo.json"), "-in", sf, "-out", tf], timeout=1800)
    code, out = run_tlc("RaceTrace.tla", cfg_text("Spec", {}, invariants=["Final"]), timeout=600, env={"VERIF_TRACE": tf}, light=True)
    if not tlc_ok(code, out):
        raise Inconclusive("race trace validation failed:\n" + out[-1500:])
    bad = printed(out, "RACEBAD")[0]
    stat = printed(out, "RACESTAT")[0]
    if stat["realised"] == 0:
        raise Inconclusive("no schedule of the %s could be realised (hook removed?)" % what)
    if isinstance(bad, dict):
        bad = list(bad.values())
    if bad:
        res["viol"] = 1
        path = write_replay(prop, "schedule_" + mech, {"property": prop, "mechanism": mech, "schedules": bad[:10], "how": "harness race-replay -mech " + mech})
        print("VIOLATION property=%s replay=%s" % (prop, path))
        print("  %s: schedule %s -> %s" % (what, bad[0]["sched"], bad[0]["defects"]))
    res["cov"] = {"schedules": len(scheds), "schedules_realised": stat["realised"], "attack_schedules_realised": stat["unsaferealised"],
                  "schedules_unrealisable": stat["lines"] - stat["realised"], "race_model_states": mcstates, "window": what}
    log("[%s] %s: %d schedules, %d realised (%d attack schedules), %d bad" % (prop, what, len(scheds), stat["realised"], stat["unsaferealised"], len(bad)))
    return res
