"""Beyond the listed properties (spec/Replica.tla): does a subscriber that applies the notifications of a server feature
stay equal to it?  Design level: TLC enumerates the ListMC domain (ReplicaMC).  Code level: the notifications the real
server feature sends are fed to a real remote-feature cache (harness list-mirror) and TLC checks that the code does
what the model says (ReplicaTrace).  Observational: never part of a verdict."""
import json
from vlib import *


def run(sc, cases, typ="limit", nk=1, flag=True):
    c = {"KnownDeviations": set(), "HasFlag": flag, "NKeys": nk, "Mode": "cases", "MaxLen": 1, "Origins": {"local"}, "Rich": True}
    code, out = run_tlc("ReplicaMC.tla", cfg_text(None, c, invariants=["Report"], init_next=("RInit", "RNext")), timeout=900, workers=1, heap="4g")
    rep = printed(out, "CONV")
    if not tlc_ok(code, out) or not rep:
        return {"error": "ReplicaMC did not complete"}
    design = rep[0]
    shards = shard(cases, NCPU)
    files = []
    for i, sh in enumerate(shards):
        bf, tf = sc.path("mirror_%d.in" % i), sc.path("mirror_%d.trace" % i)
        open(bf, "w").write("\n".join(sh) + "\n")
        files.append((bf, tf))
    stats = pmap(lambda f: json.loads(run_harness(["list-mirror", "-type", typ, "-in", f[0], "-out", f[1]])), files)
    cfg = cfg_text("TraceSpec", {"KnownDeviations": set(), "HasFlag": flag}, invariants=["Final"], postcondition="Done")

    def val(f):
        code, out = run_tlc("ReplicaTrace.tla", cfg, timeout=1800, workers=1, heap="3g", env={"VERIF_TRACE": f[1]}, light=True)
        if not tlc_ok(code, out) or not printed(out, "LINES"):
            return None
        return printed(out, "MISMATCH")[0], printed(out, "DIVERGED")[0], printed(out, "CLASSES")[0], printed(out, "LINES")[0]
    res = pmap(val, files)
    if any(r is None for r in res):
        return {"error": "ReplicaTrace did not complete", "design": design}
    mism, div, lines, classes, first = 0, 0, 0, set(), None
    for (bf, tf), (m, d, cl, n) in zip(files, res):
        mism += len(m)
        div += d
        lines += n
        classes |= {json.dumps(x) for x in cl}
        if m and first is None:
            first = json.loads(open(tf).read().splitlines()[m[0] - 1])
    return {"design": {k: design[k] for k in ("cases", "diverging", "always", "sometimes", "never")}, "design_example": design.get("example"),
            "code": {"changes_executed": sum(s["steps"] for s in stats), "lines_validated": lines, "replica_diverged": div,
                     "not_as_modelled": mism, "first_not_as_modelled": first, "diverging_classes": sorted(json.loads(x)[0] + [json.loads(x)[1]] for x in classes)}}
