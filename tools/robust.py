"""C05: spec/Robust.tla enumerates mutated deliveries; the harness executes them on the real stack under recover + watchdog and
asks every peer for its detailed discovery data afterwards; RobustTrace validates."""
import json, os, time
from vlib import *
import core

ASSUME = [
    "byte strings: valid messages of 17 kinds with every JSON path (object member or array element) dropped / nulled / emptied / replaced by a bogus, wrong-kind or swapped (valid but not fitting: another function, classifier, role, type, neighbouring number) value, plus 12 byte-level junk variants "
    "(truncation, wrong top-level shapes, nested garbage); arbitrary byte strings beyond that are not enumerated",
    "phases: connected (before discovery), discovered, bound + subscribed with data, with a write pending approval, reconnected (a write was pending, the connection was lost and set up again with the same SKI)",
    "a hang is a delivery that does not return within 3 s; afterwards the stack must answer a valid discovery read of both peers",
    "panics are keyed by the innermost spine-go function (no line numbers); a listed function that additionally leaves a peer unserved must be listed for that separately",
]


def run(prop, tier, seed, replay=None):
    t0 = time.time()
    build_harness()
    sc = Scratch()
    try:
        quick = tier == "quick"
        known = known_findings()["open"]
        kp = {f["function"] for f in known if f["property"] == prop and f.get("function")}
        ku = {f["function"] for f in known if f["property"] == prop and f.get("function") and f.get("unserved")}
        topo = core.gen_bfs(core.consts(acts=["bind"]), 0, "PrefixNone", 300)[0]
        open(sc.path("topo.json"), "w").write(topo)
        cat = json.loads(run_harness(["robust-templates", sc.path("topo.json")]))
        if replay:
            cases = [json.dumps(json.load(open(replay))["case"])]
            states = 0
        else:
            clear_replays(prop)
            nf = "[t \\in {%s} |-> CASE %s]" % (", ".join('"%s"' % t for t in sorted(cat)), " [] ".join('t = "%s" -> %d' % (t, len(cat[t])) for t in sorted(cat)))
            hf = "[t \\in {%s} |-> CASE %s]" % (", ".join('"%s"' % t for t in sorted(cat)), " [] ".join('t = "%s" -> {%s}' % (
                t, ", ".join(str(i + 1) for i, pth in enumerate(cat[t]) if pth.startswith("/datagram/header/"))) for t in sorted(cat)))
            open(os.path.join(SPEC, "RobustRun.tla"), "w").write("---- MODULE RobustRun ----\nEXTENDS Robust\nNFieldsDef == %s\nHeaderFDef == %s\n====\n" % (nf, hf))
            cases, states = [], 0
            try:
                modes = [("single", ["discovered", "bound"] if quick else ["connected", "discovered", "bound", "pending", "reconnected"], 0),
                         ("pairs", ["bound"] if quick else ["discovered", "bound", "pending"], 60 if quick else 1500),
                         ("seq", ["bound"], 40 if quick else 400),
                         ("followup", ["bound"], 0)]
                if quick:
                    modes.insert(1, ("single1", ["connected", "pending"], 0))
                    modes.insert(2, ("single2", ["reconnected"], 0))
                for mode, phases, sample in modes:
                    tmpls = set(cat)
                    if mode == "single1":  # the other two phases with a third of the templates (quick tier)
                        mode, tmpls = "single", {"discReply", "discNotifyAdd", "subRequest", "bindDelete", "write", "result", "readSel"}
                    if mode == "single2":  # after a reconnection: the messages that touch per-connection state
                        mode, tmpls = "single", {"write", "writeDelete", "bindRequest", "subDelete", "reply", "notifySel", "result", "discNotifyFull"}
                    if mode == "followup" and quick:  # quick tier: the data-carrying messages first (thorough: the discovery ones too)
                        tmpls = tmpls - {"discReply", "discNotifyAdd", "discNotifyFull", "subRequest", "bindDelete", "discNotifyRemove"}
                    c = {"Templates": tmpls, "Phases": set(phases), "Mode": mode, "MaxSeq": 2, "Sample": sample, "JunkKinds": 12}
                    code, out = run_tlc("RobustRun.tla", cfg_text("Spec", c, subst={"NFields": "NFieldsDef", "HeaderF": "HeaderFDef"}, invariants=["StillServing"], action_constraints=[],
                                                                    constraints=["Emit"]), timeout=3000, workers=1, heap="8g", extra=["-seed", str(seed)])
                    st = tlc_stats(out)
                    if not tlc_ok(code, out) or not st:
                        raise Inconclusive("Robust enumeration failed:\n" + out[-2000:])
                    states += st["distinct"]
                    b = printed_raw(out, "B")
                    log("[%s] %s %s: %d cases" % (prop, mode, phases, len(b)))
                    cases += b
            finally:
                os.remove(os.path.join(SPEC, "RobustRun.tla"))
        shards = shard(cases, NCPU * 2)
        files = []
        for i, sh in enumerate(shards):
            bf, tf = sc.path("rb%d.in" % i), sc.path("rb%d.tr" % i)
            open(bf, "w").write("\n".join(sh) + "\n")
            files.append((bf, tf))
        stats = pmap(lambda f: json.loads(run_harness(["robust-replay", "-topo", sc.path("topo.json"), "-in", f[0], "-out", f[1]], timeout=3000)), files, workers=NCPU)
        cfg = cfg_text("TraceSpec", {"KnownPanics": kp, "KnownUnserved": ku}, invariants=["Final"], postcondition="Done")

        def val(f):
            code, out = run_tlc("RobustTrace.tla", cfg, timeout=3000, workers=1, heap="3g", env={"VERIF_TRACE": f[1]}, light=True)
            if not tlc_ok(code, out):
                raise Inconclusive("robust trace validation failed:\n" + out[-2000:])
            return printed(out, "BAD")[0], printed(out, "DEVS")[0], printed(out, "LINES")[0]
        res = pmap(val, files)
        viol, seen, lines, nbad, devs, outcomes = 0, set(), 0, 0, set(), {}
        sample = None
        for (bf, tf), (bad, dv, n) in zip(files, res):
            lines += n
            devs |= set(dv)
            tl = None
            for b in bad:
                nbad += 1
                if b["why"] in seen:
                    continue
                seen.add(b["why"])
                viol += 1
                tl = tl or open(tf).read().splitlines()
                e = json.loads(tl[b["line"] - 1])
                path = write_replay(prop, "robust_%d" % viol, {"property": prop, "case": e["case"], "why": b["why"],
                                    "observed": {k: e[k] for k in ("phase", "step", "tmpl", "muts", "outcome", "frame", "served")}})
                print("VIOLATION property=%s replay=%s" % (prop, path))
                print("  phase %s, %s with %s: %s" % (e["phase"], e["tmpl"], e["muts"], b["why"]))
            if sample is None:
                first = open(tf).readline()
                if first:
                    e = json.loads(first)
                    sample = {k: e[k] for k in ("phase", "tmpl", "muts", "outcome", "served")}
        if replay:
            if not viol:
                print("replay: accepted")
            return 1 if viol else 0
        for f in sorted(devs):
            kf = next(x for x in known if x["property"] == prop and x.get("function") == f)
            print("KNOWN-FINDING: property=%s panic in %s: %s" % (prop, f, kf["identified_by"]))
        cov = {"evaluations": lines, "distinct_nontrivial": len(cases),
               "rule": "every single-field mutation (711 JSON paths of 17 templates x 6 operations) and 12 junk variants per template in the connection phases, every single-field mutation of a "
                       "state-carrying message followed by every valid data message, seeded samples of two-field mutations and of two-delivery sequences, enumerated by TLC from Robust.tla; each delivered to a fresh real stack with two peers; distinct = cases",
               "samples": [sample], "model_states": states, "bad": nbad, "known_panic_functions_seen": sorted(devs), "fields": sum(len(v) for v in cat.values()),
               "checker_cmd": "tlc Robust.tla (enumeration); harness robust-replay; tlc RobustTrace.tla"}
        write_evidence(prop, tier, seed, "fault_enumeration", cov, ASSUME, time.time() - t0, viol)
        log("[%s] %s: %d cases, %d deliveries, %d bad (%d classes), %.1fs" % (prop, tier, len(cases), lines, nbad, viol, time.time() - t0))
        return 1 if viol else 0
    finally:
        sc.close()
