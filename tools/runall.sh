#!/bin/bash
# runs every registered check's quick (or $1) tier on the current tree; prints one line per check
cd "$(dirname "$0")/.."
TIER=${1:-quick}
git -C /repo diff --quiet || { echo "/repo has uncommitted changes"; exit 2; }
for p in $(python3 -c "import json;print(' '.join(c['property_id'] for c in json.load(open('MANIFEST.json'))['checks']))"); do
  s=$(date +%s)
  out=$(./check $p $TIER 2>&1); rc=$?
  echo "$p exit=$rc $(( $(date +%s) - s ))s $(echo "$out" | grep -c '^KNOWN-FINDING') known $(echo "$out" | grep -c '^VIOLATION') violations"
  [ $rc -ne 0 ] && echo "$out" | grep -e VIOLATION -e INCONCLUSIVE | head -3
done
