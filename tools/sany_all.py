#!/usr/bin/env python3
"""Parse every specification module with SANY (setup step; fails if a module does not parse)."""
import os, subprocess, sys, tempfile, shutil
V = os.path.dirname(os.path.dirname(os.path.abspath(__file__)))
d = tempfile.mkdtemp(prefix="verif-sany-")
try:
    mods = sorted(f for f in os.listdir(os.path.join(V, "spec")) if f.endswith(".tla"))
    for f in mods:
        shutil.copyfile(os.path.join(V, "spec", f), os.path.join(d, f))
    # (modules with TLAPS proofs extend TLAPS.tla, which ships with the proof system, not with tla2tools)
    tlaps = "/opt/veriftools/tlapm/lib/tlapm/stdlib/TLAPS.tla"
    if os.path.exists(tlaps):
        shutil.copyfile(tlaps, os.path.join(d, "TLAPS.tla"))
    bad = 0
    for f in mods:
        r = subprocess.run(["java", "-cp", "/opt/veriftools/tla/tla2tools.jar:/opt/veriftools/tla/CommunityModules-deps.jar", "tla2sany.SANY", f],
                           cwd=d, capture_output=True, text=True, timeout=120)
        if r.returncode != 0 or "*** Errors" in r.stdout or "Fatal errors" in r.stdout:
            print(f, "DOES NOT PARSE\n", r.stdout[-1500:])
            bad += 1
    print("SANY: %d modules parsed, %d failed" % (len(mods), bad))
    sys.exit(1 if bad else 0)
finally:
    shutil.rmtree(d, ignore_errors=True)
