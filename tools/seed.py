#!/usr/bin/env python3
"""seed.py confirm <id> <srcdir>   - confirm a seeded change in a scratch worktree and keep it under /verif/seeded/<id>/
   seed.py run <id> [tier] [props] - apply seeded/<id>/patch.diff to /repo, run the check(s), undo it, record the result in meta.json"""
import json, os, shutil, subprocess, sys, time
VERIF = os.path.dirname(os.path.dirname(os.path.abspath(__file__)))
REPO = "/repo"
ENV = dict(os.environ, GOFLAGS="-mod=mod", GOPROXY="off", GOSUMDB="off", GOTOOLCHAIN="local")
SCRATCH_CACHE = "/tmp/mut/gocache"  # scratch worktrees get their own build cache, removed afterwards


def sh(cmd, cwd=None, timeout=1800):
    r = subprocess.run(cmd, shell=True, cwd=cwd, env=ENV, capture_output=True, text=True, timeout=timeout)
    return r.returncode, r.stdout + r.stderr


def confirm(mid, src):
    meta = json.load(open(os.path.join(src, "meta.json")))
    wt = "/tmp/mut/conf_" + mid
    sh("git -C %s worktree remove --force %s" % (REPO, wt))
    rc, out = sh("git -C %s worktree add -q --detach %s HEAD" % (REPO, wt))
    assert rc == 0, out
    res = {}
    ENV["GOCACHE"] = SCRATCH_CACHE
    try:
        place = meta.get("demo_place", "spine/").strip("/")
        demo_dst = os.path.join(wt, place, "zz_seed_demo_test.go")
        shutil.copyfile(os.path.join(src, "demo_test.go"), demo_dst)
        run = meta["demo_run"]
        rc, out = sh(run, cwd=wt)
        res["demo_passes_without_change"] = rc == 0
        os.remove(demo_dst)
        rc, out = sh("git apply -3 %s" % os.path.join(src, "patch.diff"), cwd=wt)
        res["applies"] = rc == 0
        if rc != 0:
            res["apply_output"] = out[-500:]
        rc, out = sh("go build ./... && go build -tags verif ./...", cwd=wt)
        res["builds"] = rc == 0
        rc, out = sh("go test -vet=off -count=1 ./...", cwd=wt)
        res["suite_passes_with_change"] = rc == 0
        shutil.copyfile(os.path.join(src, "demo_test.go"), demo_dst)
        rc, out = sh(run, cwd=wt)
        res["demo_fails_with_change"] = rc != 0
        os.remove(demo_dst)
        rc, patch = sh("git diff HEAD", cwd=wt)
    finally:
        sh("git -C %s worktree remove --force %s" % (REPO, wt))
        shutil.rmtree(SCRATCH_CACHE, ignore_errors=True)
    ok = all(res.get(k) for k in ("demo_passes_without_change", "applies", "builds", "suite_passes_with_change", "demo_fails_with_change"))
    res["confirmed_at_repo_commit"] = sh("git -C %s rev-parse --short HEAD" % REPO)[1].strip()
    print(mid, "CONFIRMED" if ok else "REJECTED", json.dumps(res))
    if ok:
        d = os.path.join(VERIF, "seeded", mid)
        os.makedirs(d, exist_ok=True)
        open(os.path.join(d, "patch.diff"), "w").write(patch)  # re-based on the current HEAD
        shutil.copyfile(os.path.join(src, "demo_test.go"), os.path.join(d, "demo_test.go"))
        meta["breaks_property"] = meta.get("property")
        meta["confirmation"] = res
        meta["what_i_ran"] = "scratch worktree of /repo HEAD: demo alone passes; git apply patch; go build ./... (with and without -tags verif); go test -vet=off -count=1 ./... passes; demo fails"
        json.dump(meta, open(os.path.join(d, "meta.json"), "w"), indent=1)
    return ok


def run(mid, tier="quick", props=None):
    d = os.path.join(VERIF, "seeded", mid)
    meta = json.load(open(os.path.join(d, "meta.json")))
    props = props or [meta["property"]]
    rc, out = sh("git -C %s status --porcelain" % REPO)
    assert out.strip() == "", "/repo is not clean: " + out
    rc, out = sh("git -C %s apply -3 %s" % (REPO, os.path.join(d, "patch.diff")))
    if rc != 0:
        sh("git -C %s reset -q --hard HEAD" % REPO)
        print(mid, "patch does not apply:", out[-300:])
        return
    results = {}
    try:
        for p in props:
            t = time.time()
            rc, out = sh("./check %s %s" % (p, tier), cwd=VERIF, timeout=7200)
            viol = [l for l in out.splitlines() if l.startswith("VIOLATION")]
            results[p] = {"exit": rc, "violations": viol[:5], "wall_s": round(time.time() - t, 1), "tier": tier}
            print(mid, p, tier, "exit", rc, "|", (viol[0] if viol else out.strip().splitlines()[-1] if out.strip() else ""))
            # keep the replay of a detected seeded change next to it
    finally:
        sh("git -C %s reset -q --hard HEAD" % REPO)
        rc, out = sh("git -C %s status --porcelain" % REPO)
        assert out.strip() == "", "/repo not clean after undo: " + out
    meta.setdefault("detection", {}).update(results)
    json.dump(meta, open(os.path.join(d, "meta.json"), "w"), indent=1)


if __name__ == "__main__":
    if sys.argv[1] == "confirm":
        sys.exit(0 if confirm(sys.argv[2], sys.argv[3]) else 1)
    elif sys.argv[1] == "run":
        run(sys.argv[2], sys.argv[3] if len(sys.argv) > 3 else "quick", sys.argv[4].split(",") if len(sys.argv) > 4 else None)
