"""C13: Sender contract. TLC exhaustive check of spec/Sender.tla (small constants), TLC-generated call sequences plus
long seeded sequences that reach the real constants, replayed on the real spine.Sender; TLC validates the trace with
the real constants (SenderTrace) and the free-running concurrent rounds (SenderConc)."""
import json, os, time
from vlib import *
import core

# end-to-end part: requests of a local client feature through the real receive path (a response that references an
# unanswered request - whether it can be processed or not - re-enables sending; disconnect forgets the memory)
CORE_PART = {
    "checked": ["ret", "reqs", "panic", "late"],
    "assumptions": [],
    "quick": {"mc": [{"acts": ["lreq", "cbrecv", "disconnect", "connect", "discover"], "maxlen": 5, "prefix": "PrefixP1", "maxreq": 2}],
              "gen": [{"acts": ["lreq", "cbrecv"], "maxlen": 4, "prefix": "PrefixP1", "maxreq": 3},
                      {"acts": ["lreq", "cbrecv"], "tiny": ["cbrecv"], "maxlen": 4, "prefix": "PrefixP1", "maxreq": 2, "view": None},
                      {"acts": ["lreq", "cbrecv", "disconnect", "connect", "discover"], "maxlen": 5, "prefix": "PrefixP1", "maxreq": 2}],
              "sim": [], "cap": 30000},
    "thorough": {"mc": [{"acts": ["lreq", "cbrecv", "disconnect", "connect", "discover"], "maxlen": 6, "prefix": "PrefixP1P2", "maxreq": 2}],
                 "gen": [{"acts": ["lreq", "cbrecv"], "maxlen": 5, "prefix": "PrefixP1P2", "maxreq": 3},
                         {"acts": ["lreq", "cbrecv"], "tiny": ["cbrecv"], "maxlen": 5, "prefix": "PrefixP1", "maxreq": 2, "view": None},
                         {"acts": ["lreq", "cbrecv", "disconnect", "connect", "discover"], "maxlen": 6, "prefix": "PrefixP1", "maxreq": 3}],
                 "sim": [{"acts": ["connect", "discover", "disconnect", "lreq", "cbrecv", "recv", "entadd"], "maxlen": 40, "num": 1000, "maxreq": 3}], "cap": 300000},
}

ASSUME = [
    "the statement fixes 100 for notifications but no size for the memory of unanswered requests: withholding is allowed only for an identical unanswered request "
    "that is at most Bound=2000 requests old, and a repeat after 2500 distinct unanswered requests must be sent (the code's 20 is not pinned)",
    "sending an identical request again although it is unanswered is allowed (it is what eviction looks like from outside)",
    "sequential histories are driven on spine.NewSender directly; the concurrent clause is checked on free-running rounds of 16 goroutines in which every call sends",
]


def validate(tracefile, known):
    cfg = cfg_text("TraceSpec", {"Reqs": {"a"}, "NotifyMax": 100, "Bound": 2000, "KnownDeviations": set(known)},
                   invariants=["Final"], postcondition="Done")
    code, out = run_tlc("SenderTrace.tla", cfg, timeout=1200, workers=1, heap="6g", env={"VERIF_TRACE": tracefile}, light=True)
    if not tlc_ok(code, out):
        raise Inconclusive("sender trace validation failed:\n" + out[-3000:])
    return printed(out, "BAD")[0], printed(out, "DEVS")[0], printed(out, "LINES")[0]


def behaviour_at(tracefile, line):
    cur, hit = [], None
    for i, l in enumerate(open(tracefile), 1):
        e = json.loads(l)
        if e["op"] == "reset":
            if hit is not None:
                break
            cur = []
            continue
        cur.append(e)
        if i == line:
            hit = len(cur) - 1
    return cur, hit


def to_input(e):
    return {k: e[k] for k in ("op", "r", "kind", "ref", "c")}


def run(prop, tier, seed, replay=None):
    t0 = time.time()
    build_harness()
    sc = Scratch()
    try:
        known = open_deviations(prop)
        if replay and "topo" in json.load(open(replay)):
            return core.execute(prop, tier, seed, CORE_PART, replay)
        if replay:
            r = json.load(open(replay))
            bf, tf = sc.path("b.ndjson"), sc.path("t.ndjson")
            open(bf, "w").write(json.dumps(r["inputs"]) + "\n")
            run_harness(["sender-replay", "-in", bf, "-out", tf])
            bad, devs, lines = validate(tf, known.keys())
            for b in bad:
                print("VIOLATION property=%s replay=%s" % (prop, replay))
                print("  call %d %s: %s" % (b["line"] - 1, json.dumps(to_input(b["e"])), b["why"]))
            if not bad:
                print("replay: every call accepted by the specification")
            return 1 if bad else 0
        clear_replays(prop)
        quick = tier == "quick"
        # 1. exhaustive check of the contract, small constants
        mc = {"Reqs": {"a", "b"}, "NotifyMax": 2, "Bound": 1, "KnownDeviations": set(), "MaxLen": 7 if quick else 9, "MaxCtr": 6 if quick else 8}
        code, out = run_tlc("SenderMC.tla", cfg_text("Spec", mc, view="View", invariants=["Inv"], properties=["StepProperty"]),
                            timeout=1200, workers=NCPU, heap="8g")
        st = tlc_stats(out)
        if not tlc_ok(code, out) or not st:
            raise Inconclusive("exhaustive check of Sender.tla failed:\n" + out[-2000:])
        log("[%s] spec check: %d distinct states, %d transitions" % (prop, st["distinct"], st["generated"]))
        # 2. call sequences: BFS transition cover of the small model + long seeded sequences
        gen = dict(mc, MaxLen=5 if quick else 6, MaxCtr=5 if quick else 6)
        code, out = run_tlc("SenderMC.tla", cfg_text("Spec", gen, view="View", action_constraints=["Emit"]), timeout=1200, workers=1, heap="8g")
        if not tlc_ok(code, out):
            raise Inconclusive("generator failed:\n" + out[-2000:])
        behs = printed_raw(out, "B")
        nbfs = len(behs)
        longb = run_harness(["sender-gen", "-seed", str(seed), "-n", "20" if quick else "300", "-long", "2500"]).splitlines()
        behs += longb
        bf, tf = sc.path("b.ndjson"), sc.path("t.ndjson")
        open(bf, "w").write("\n".join(behs) + "\n")
        stats = json.loads(run_harness(["sender-replay", "-in", bf, "-out", tf]))
        log("[%s] %d call sequences (%d from the transition cover), %d calls on the real Sender" % (prop, len(behs), nbfs, stats["steps"]))
        # binding self-test: corrupt one returned counter
        lines = open(tf).read().splitlines()
        k = next(i for i, l in enumerate(lines) if '"res":"sent"' in l and i > 3)
        e = json.loads(lines[k]); e["ret"] += 1
        tf2 = sc.path("t2.ndjson")
        open(tf2, "w").write("\n".join(lines[:k] + [json.dumps(e)] + lines[k + 1:k + 40]) + "\n")
        b2, _, _ = validate(tf2, known.keys())
        if not any(b["line"] == k + 1 for b in b2):
            raise Inconclusive("binding self-test failed: corrupted counter not rejected")
        bad, devs, nlines = validate(tf, known.keys())
        # 3. concurrent rounds
        cf = sc.path("conc.ndjson")
        run_harness(["sender-stress", "-seed", str(seed), "-g", "16", "-ops", "40" if quick else "150", "-rounds", "6" if quick else "40", "-out", cf])
        code, out = run_tlc("SenderConc.tla", cfg_text("Spec", {}, invariants=["Final"]), timeout=1200, workers=1, heap="6g", env={"VERIF_TRACE": cf}, light=True)
        if not tlc_ok(code, out):
            raise Inconclusive("concurrent trace validation failed:\n" + out[-2000:])
        conc = printed(out, "CONC")[0]
        rounds = printed(out, "ROUNDS")[0]
        cr = core.execute(prop, tier, seed, CORE_PART, clear=False)
        viol = cr["viol"]
        seen = set()
        for b in bad:
            key = (b["e"]["op"], b["e"]["res"], b["why"])
            if key in seen:
                continue
            seen.add(key)
            viol += 1
            cur, hit = behaviour_at(tf, b["line"])
            path = write_replay(prop, "%s_%s" % (b["e"]["op"], b["e"]["res"]), {"property": prop, "inputs": [to_input(x) for x in cur[:hit + 1]],
                                "failing_call": hit, "observed": cur[hit], "why": b["why"]})
            print("VIOLATION property=%s replay=%s" % (prop, path))
            print("  call %s returned %s/%d: not allowed by the contract (%s)" % (json.dumps(to_input(b["e"])), b["e"]["res"], b["e"]["ret"], b["why"]))
        if conc:
            viol += 1
            path = write_replay(prop, "concurrent", {"property": prop, "defects": conc, "how": "harness sender-stress -seed %d" % seed})
            print("VIOLATION property=%s replay=%s" % (prop, path))
            print("  concurrent rounds: %s" % json.dumps(conc)[:300])
        if isinstance(devs, dict):
            for name, d in devs.items():
                f = known.get(name)
                if f:
                    cur, hit = behaviour_at(tf, d["first"])
                    print("KNOWN-FINDING: property=%s %s: %s (%d calls, first: %s)" % (prop, name, f["identified_by"], d["n"], json.dumps(to_input(cur[hit]))))
                else:
                    viol += 1
                    print("VIOLATION property=%s replay=none (deviation %s not listed)" % (prop, name))
        samples = [json.loads(l) for l in lines[1:4]]
        ops = set()
        for l in lines:
            e = json.loads(l)
            if e["op"] != "reset":
                ops.add((e["op"], e["res"], e.get("kind", ""), min(e["ret"], 130)))
        cov = {"states": st["distinct"] + cr["cov"]["states"], "transitions": st["generated"] + cr["cov"]["transitions"],
               "traces_validated_against_impl": len(behs) + rounds + cr["cov"]["traces_validated_against_impl"],
               "evaluations": stats["steps"] + cr["cov"]["evaluations"], "distinct_nontrivial": len(ops) + cr["cov"]["distinct_nontrivial"],
               "end_to_end_part": {k: cr["cov"][k] for k in ("states", "transitions", "traces_validated_against_impl", "evaluations", "bad_steps")},
               "rule": "call sequences = BFS transition cover of SenderMC (2 identities, NotifyMax 2) + seeded long sequences reaching the real constants "
                       "(17..24 unanswered requests, 99..250 notifications with lookups, 2500 distinct unanswered requests) executed on spine.NewSender; "
                       "distinct = distinct (call, result, counter capped at 130) triples; plus free-running rounds of 16 goroutines",
               "samples": samples, "trace_lines": nlines, "concurrent_rounds": rounds, "bad_calls": len(bad),
               "deviations_used": {k: v["n"] for k, v in devs.items()} if isinstance(devs, dict) else {},
               "binding_selftest": {"done": True, "corrupted": "returned counter", "rejected": True},
               "checker_cmd": "tlc SenderMC.tla (INVARIANT Inv, PROPERTY StepProperty); tlc SenderTrace.tla; tlc SenderConc.tla"}
        import suite
        sr = suite.execute(prop, sc)   # the repository's own tests under the state tracer (message counters / heartbeat refreshes)
        viol += sr["viol"]
        cov["suite_trace"] = sr["cov"]
        write_evidence(prop, tier, seed, "model_checking", cov, ASSUME, time.time() - t0, viol)
        log("[%s] %s: %d calls validated, %d bad, %d concurrent rounds, %.1fs" % (prop, tier, stats["steps"], len(bad), rounds, time.time() - t0))
        return 1 if viol else 0
    finally:
        sc.close()
