"""Trace validation of executions that no generator of the specifications produced (spec/SuiteTrace.tla):
(1) the repository's own test suite, run with the state tracer of spine/verif_trace.go (build tag verif,
VERIF_SUITE_TRACE) - every change of a subscription / binding registry, every message counter and every heartbeat refresh
those tests cause is checked against the invariants and step rules of the specifications; (2) the state traces the
harness' replay processes write through the same tracer (registries read under their lock at the point of the change,
not through the public getters).  A part of the checks of C08, C09, C13 and C16; it never makes a check inconclusive."""
import glob, json, os, subprocess
from vlib import *

KINDS = {"C08": {"sub"}, "C09": {"bind"}, "C10": {"sub", "bind"}, "C13": {"ctr"}, "C16": {"hb"}, "C17": {"sub", "bind", "ctr"}}


def _validate(path, sc):
    code, out = run_tlc("SuiteTrace.tla", cfg_text("Spec", {}, invariants=["Final"], postcondition="Done"), timeout=1800, workers=1, heap="3g",
                        env={"VERIF_TRACE": path}, light=True)
    if not tlc_ok(code, out):
        raise Inconclusive("suite trace validation failed:\n" + out[-2000:])
    return printed(out, "BAD")[0], printed(out, "LINES")[0]


def _filtered(files, kinds, dst):
    """Concatenate trace files (one per process), keep the lines of the given kinds, marks and a reset between files."""
    n = 0
    with open(dst, "w") as o:
        for f in files:
            o.write('{"ev":"reset","op":"","obj":"","ctr":0,"entries":[]}\n')
            for l in open(f):
                if '"ev":"mark"' in l or any('"ev":"%s"' % k in l for k in kinds):
                    o.write(l)
                    if '"ev":"mark"' not in l:
                        n += 1
    return n


def record_repo_suite(sc):
    """go test -tags verif of the repository's packages with the tracer on; returns the trace files (one per test process)."""
    base = sc.path("suite_tr")
    env = dict(GOENV, VERIF_SUITE_TRACE=base)
    r = subprocess.run(["go", "test", "-tags", "verif", "-vet=off", "-count=1", "-timeout", "10m", "./spine/", "./integration_tests/"],
                       cwd=REPO, env=env, capture_output=True, text=True, timeout=900)
    return sorted(glob.glob(base + ".*")), r.returncode


def selftest(path, sc, kinds):
    """Binding self-test: an id handed out twice / a counter drawn twice in a real trace must be rejected."""
    lines = open(path).read().splitlines()
    for i, l in enumerate(lines):
        e = json.loads(l)
        if e["ev"] in ("bind", "sub") and e["op"] == "insert" and len(e["entries"]) >= 1 and i + 1 < len(lines):
            e2 = dict(e, seq=e["seq"], entries=e["entries"] + [dict(e["entries"][-1], id=e["entries"][-1]["id"] + 1000, cid="oX", sid="oY")])
            bad_lines = lines[:i + 1] + [json.dumps(dict(e2, op="remove"))]
            break
        if e["ev"] in ("ctr", "hb"):
            bad_lines = lines[:i + 1] + [l]
            break
    else:
        return None
    p = sc.path("suite_selftest.ndjson")
    open(p, "w").write("\n".join(bad_lines) + "\n")
    bad, _ = _validate(p, sc)
    return bool(bad)


HARNESS_TRACES = []   # (state trace file of a harness replay process, the behaviour file it replayed), filled by core.py


def execute(prop, sc, extra_files=()):
    """Returns {"viol": n, "cov": {...}}; prints VIOLATION lines. extra_files: (state trace, behaviour file) of harness replay processes."""
    kinds = KINDS.get(prop)
    res = {"viol": 0, "cov": {"skipped": "no event kind of this property"}}
    if not kinds:
        return res
    try:
        files, rc = record_repo_suite(sc)
        src = sc.path("suite_all.ndjson")
        n_repo = _filtered(files, kinds, src)
        bad, lines = _validate(src, sc) if n_repo else ([], 0)
        st = selftest(src, sc, kinds) if n_repo else None
        if st is False:
            log("[%s] suite trace: binding self-test failed (a corrupted line was accepted); part skipped" % prop)
            return {"viol": 0, "cov": {"skipped": "binding self-test failed"}}
        n_h, bad_h = 0, []
        if extra_files:
            # (a bounded number of process traces, the largest ones: the thorough tiers produce hundreds)
            extra_files = sorted(extra_files, key=lambda x: -os.path.getsize(x[0]))[:64]
            jobs = []
            for i, (stf, behf) in enumerate(extra_files):
                d = sc.path("suite_h%d.ndjson" % i)
                k = _filtered([stf], kinds, d)
                n_h += k
                if k:
                    jobs.append((d, behf))
            for (b, _), (d, behf) in zip(pmap(lambda j: _validate(j[0], sc), jobs), jobs):
                for x in b:
                    try:
                        if behf:
                            x["inputs"] = json.loads(open(behf).read().splitlines()[int(x["mark"])])
                    except Exception:
                        pass
                    bad_h.append(x)
        seen = set()
        for src_name, bl in (("the repository's own test suite", bad), ("harness replay (state read at the hook points)", bad_h)):
            for x in bl:
                key = (src_name, x["ev"], tuple(sorted(x["why"])))
                if key in seen:
                    continue
                seen.add(key)
                res["viol"] += 1
                rp = {"property": prop, "source": src_name, "defect": {k: v for k, v in x.items() if k != "inputs"}, "how": "suite-trace",
                      "note": "re-run: ./check %s --replay <this file> records the traces again and validates them" % prop}
                if "inputs" in x:
                    rp["inputs"] = x["inputs"]
                path = write_replay(prop, "suitetrace_%d" % res["viol"], rp)
                print("VIOLATION property=%s replay=%s" % (prop, path))
                print("  %s: %s %s of object %s: %s" % (src_name, x["ev"], x["op"], x["obj"], x["why"]))
        res["cov"] = {"repo_suite_exit": rc, "repo_suite_events": n_repo, "repo_suite_processes": len(files), "harness_state_events": n_h,
                      "kinds": sorted(kinds), "bad": len(bad) + len(bad_h), "binding_selftest": {"done": st is not None, "rejected": bool(st)},
                      "checker_cmd": "go test -tags verif (VERIF_SUITE_TRACE) ; tlc SuiteTrace.tla"}
        log("[%s] suite trace: %d events of the repository's tests (%d processes, go test exit %d), %d events of harness processes, %d bad" %
            (prop, n_repo, len(files), rc, n_h, len(bad) + len(bad_h)))
    except Exception as e:  # supplementary part: never turns a verdict into "inconclusive"
        log("[%s] suite trace part skipped: %s" % (prop, str(e)[:300]))
        res["cov"] = {"skipped": str(e)[:200]}
    return res
