#!/bin/bash
# usage: tlcrun.sh <timeout-s> <cfg> <module.tla> [extra tlc args...]
# Runs TLC on a scratch copy of /verif/spec (tools litter states/ etc.), prints TLC's output, removes the scratch dir.
set -u
T=$1; CFG=$2; MOD=$3; shift 3
SPEC_DIR="$(cd "$(dirname "$0")/../spec" && pwd)"
D=$(mktemp -d /tmp/verif-tlc.XXXXXX)
trap 'rm -rf "$D"' EXIT
cp "$SPEC_DIR"/*.tla "$SPEC_DIR"/*.cfg "$D"/ 2>/dev/null
cd "$D" || exit 2
timeout "$T" java -Djava.io.tmpdir="$D" -XX:+UseParallelGC ${TLC_JAVA_OPTS:-} -cp /opt/veriftools/tla/tla2tools.jar:/opt/veriftools/tla/CommunityModules-deps.jar tlc2.TLC -metadir "$D/md" -config "$CFG" "$@" "$MOD" 2>&1 | grep -v -e '^Parsing file' -e '^Semantic processing' -e '^Linting of module' -e '^$'
exit ${PIPESTATUS[0]}
