"""C07: spec/LocalTree.tla - exhaustive check, generated histories replayed on the real DeviceLocal, trace validation,
plus the forced interleavings of concurrent GetOrAddFeature calls (CheckThenAct) and a free-running stress."""
import json, os, time
from vlib import *
import core, races

ASSUME = [
    "dynamic entities [3], [3,1], [4] with up to MaxFeat features of 2 types x 2 roles and 3 functions with r/w flags, on top of the static device of the core topology",
    "p1 is subscribed to node management, p2 is not; both read the detailed discovery data",
    "an entity that was removed is not created again (feature numbers are counted per entity object)",
    "adding a feature or function to an entity that is already registered is not announced by a notification (no property asks for one); the next discovery read shows it",
]
ALL = ["newent", "addfeat", "addfn", "addent", "rement", "read", "setdesc"]


def run(prop, tier, seed, replay=None):
    t0 = time.time()
    build_harness()
    sc = Scratch()
    try:
        quick = tier == "quick"
        topo = core.gen_bfs(core.consts(acts=["bind"]), 0, "PrefixNone", 300)[0]
        open(sc.path("topo.json"), "w").write(topo)
        if replay and "inputs" in json.load(open(replay)):
            behs = [json.dumps(json.load(open(replay))["inputs"])]
            st = {"distinct": 0, "generated": 0}
        else:
            if replay:
                r = races.execute(prop, tier, sc, topo)
                r2 = races.execute(prop, tier, sc, topo, mech="entity")
                return 1 if r["viol"] or r2["viol"] else 0
            clear_replays(prop)
            c = {"MaxLen": 6 if quick else 7, "MaxFeat": 2, "Acts": set(ALL)}
            code, out = run_tlc("LocalTreeMC.tla", cfg_text("Spec", c, view="View", invariants=["Inv"], properties=["StepProperty"]), timeout=3000, workers=NCPU, heap="8g")
            st = tlc_stats(out)
            if not tlc_ok(code, out) or not st:
                raise Inconclusive("LocalTree exhaustive check failed:\n" + out[-2500:])
            log("[%s] spec check: %d distinct states, %d transitions" % (prop, st["distinct"], st["generated"]))
            behs = []
            for acts, ml in ([(ALL, 5), (["newent", "addfeat", "setdesc", "addent", "read"], 6), (["newent", "addfeat", "addent", "rement", "read"], 6)] if quick else [(ALL, 6), (["newent", "addfeat", "addent", "rement", "read"], 8)]):
                c = {"MaxLen": ml, "MaxFeat": 3 if len(acts) < 6 else 2, "Acts": set(acts)}
                code, out = run_tlc("LocalTreeMC.tla", cfg_text("Spec", c, view="View", action_constraints=["Emit"]), timeout=3000, workers=1, heap="8g")
                if not tlc_ok(code, out):
                    raise Inconclusive("LocalTree generator failed:\n" + out[-2500:])
                b = printed_raw(out, "B")
                log("[%s] generator %s maxlen %d: %d behaviours" % (prop, acts, ml, len(b)))
                behs += b
            cap = 30000 if quick else 400000
            if len(behs) > cap:
                import random
                behs = random.Random(seed).sample(behs, cap)
        shards = shard(behs, NCPU)
        files = []
        for i, sh in enumerate(shards):
            bf, tf = sc.path("b%d" % i), sc.path("t%d" % i)
            open(bf, "w").write("\n".join(sh) + "\n")
            files.append((bf, tf))
        stats = pmap(lambda f: json.loads(run_harness(["tree-replay", "-topo", sc.path("topo.json"), "-in", f[0], "-out", f[1]])), files)
        nsteps = sum(s["steps"] for s in stats)
        cfg = cfg_text("TraceSpec", {"MaxLen": 0, "MaxFeat": 9, "Acts": set()}, invariants=["Final"], postcondition="Done")

        def val(f):
            code, out = run_tlc("LocalTreeTrace.tla", cfg, timeout=3000, workers=1, heap="3g", env={"VERIF_TRACE": f[1]}, light=True)
            if not tlc_ok(code, out):
                raise Inconclusive("tree trace validation failed:\n" + out[-2500:])
            return printed(out, "BAD")[0], printed(out, "LINES")[0]
        res = pmap(val, files)
        if not replay:
            # binding self-test: drop one announced feature from a reply
            lines = open(files[0][1]).read().splitlines()
            k = next((i for i, l in enumerate(lines) if '"reply":{"ents":["' in l and '"feats":[{' in l.split('"reply"')[1][:200]), None)
            if k is not None:
                e = json.loads(lines[k]); e["reply"]["feats"] = e["reply"]["feats"][1:]
                j = max(i for i in range(k + 1) if '"reset"' in lines[i])
                open(sc.path("st"), "w").write("\n".join(lines[j:k] + [json.dumps(e)]) + "\n")
                code, out = run_tlc("LocalTreeTrace.tla", cfg, timeout=300, workers=1, heap="2g", env={"VERIF_TRACE": sc.path("st")}, light=True)
                if not (tlc_ok(code, out) and printed(out, "BAD")[0]):
                    raise Inconclusive("binding self-test failed: corrupted reply accepted")
        viol, seen, lines_total, samples = 0, set(), 0, []
        for (bf, tf), (bad, n) in zip(files, res):
            lines_total += n
            for b in bad:
                key = (b["a"]["a"], tuple(sorted(b["why"])))
                if key in seen:
                    continue
                seen.add(key)
                viol += 1
                # the behaviour up to the failing line
                tl = open(tf).read().splitlines()
                j = max(i for i in range(b["line"]) if '"reset"' in tl[i])
                inputs = [json.loads(x)["a"] for x in tl[j + 1:b["line"]]]
                path = write_replay(prop, "%s_%s" % (b["a"]["a"], "-".join(w.split()[0] for w in sorted(b["why"]))),
                                    {"property": prop, "inputs": inputs, "why": b["why"], "observed": json.loads(tl[b["line"] - 1])})
                print("VIOLATION property=%s replay=%s" % (prop, path))
                print("  input %s: %s" % (json.dumps(b["a"]), b["why"]))
        if replay:
            if not viol:
                print("replay: accepted")
            return 1 if viol else 0
        rr = races.execute(prop, tier, sc, topo)
        viol += rr["viol"]
        rr2 = races.execute(prop, tier, sc, topo, mech="entity")
        viol += rr2["viol"]
        for l in open(files[0][1]).read().splitlines()[:400]:
            e = json.loads(l)
            if e["a"].get("a") in ("addent", "read") and len(samples) < 3 and (e.get("notes", {}).get("p1") or not e["reply"]["none"]):
                samples.append({"input": e["a"], "reply": e["reply"], "notes": e["notes"]})
        cov = {"states": st["distinct"], "transitions": st["generated"], "traces_validated_against_impl": len(behs) + rr["cov"]["schedules"] + rr2["cov"]["schedules"],
               "evaluations": nsteps, "distinct_nontrivial": len(set(b for b in behs)),
               "rule": "BFS transition cover of LocalTree (one behaviour per transition), executed on a real DeviceLocal with two peers; distinct = distinct behaviours; "
                       "plus all interleavings of concurrent GetOrAddFeature calls forced through the gate at the lookup miss",
               "samples": samples or [json.loads(behs[-1])], "trace_lines": lines_total, "forced_schedules": rr["cov"], "forced_schedules_entity_list": rr2["cov"],
               "binding_selftest": {"done": True, "rejected": True},
               "checker_cmd": "tlc LocalTree.tla (INVARIANT Inv, PROPERTY StepProperty / TraceSpec); tlc CheckThenAct.tla; tlc RaceTrace.tla"}
        write_evidence(prop, tier, seed, "model_checking", cov, ASSUME, time.time() - t0, viol)
        log("[%s] %s: %d behaviours, %d steps, %d violation classes, %.1fs" % (prop, tier, len(behs), nsteps, viol, time.time() - t0))
        return 1 if viol else 0
    finally:
        sc.close()
