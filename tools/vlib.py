"""Shared machinery of the /verif checks: TLC runs in scratch dirs, harness build, sharded
replay + trace validation, verdict policy (0 ok / 1 violation / 2 inconclusive), evidence."""
import json, os, re, shutil, subprocess, sys, tempfile, time, random, hashlib
from concurrent.futures import ThreadPoolExecutor

VERIF = os.path.dirname(os.path.dirname(os.path.abspath(__file__)))
SPEC = os.path.join(VERIF, "spec")
HARNESS_DIR = os.path.join(VERIF, "harness")
HARNESS = os.path.join(HARNESS_DIR, "bin", "harness")
REPO = os.environ.get("VERIF_REPO", "/repo")
CP = "/opt/veriftools/tla/tla2tools.jar:/opt/veriftools/tla/CommunityModules-deps.jar"
NCPU = os.cpu_count() or 4
GOENV = dict(os.environ, GOFLAGS="-mod=mod", GOPROXY="off", GOSUMDB="off", GOTOOLCHAIN="local")


class Inconclusive(Exception):
    pass


_T0 = time.time()


def log(*a):
    print("[%6.1fs]" % (time.time() - _T0), *a, file=sys.stderr, flush=True)


def build_harness():
    """(Re)build the harness against /repo's current working tree with the hooks enabled."""
    shutil.copyfile(os.path.join(REPO, "go.sum"), os.path.join(HARNESS_DIR, "go.sum"))
    gomod = os.path.join(HARNESS_DIR, "go.mod")
    s = open(gomod).read()
    s2 = re.sub(r"replace github.com/enbility/spine-go => .*", "replace github.com/enbility/spine-go => " + REPO, s)
    if s2 != s:
        open(gomod, "w").write(s2)
    r = subprocess.run(["go", "build", "-tags", "verif", "-o", HARNESS, "."], cwd=HARNESS_DIR, env=GOENV,
                       capture_output=True, text=True)
    if r.returncode != 0:
        raise Inconclusive("harness build failed (does /repo still compile?):\n" + r.stdout + r.stderr)


class Scratch:
    def __init__(self):
        self.d = tempfile.mkdtemp(prefix="verif-")

    def path(self, *p):
        return os.path.join(self.d, *p)

    def close(self):
        shutil.rmtree(self.d, ignore_errors=True)


def cfg_text(spec, constants, invariants=(), properties=(), view=None, action_constraints=(), constraints=(),
             postcondition=None, subst=None, init_next=None):
    out = []
    if init_next:
        out += ["INIT " + init_next[0], "NEXT " + init_next[1]]
    else:
        out.append("SPECIFICATION " + spec)
    out.append("CONSTANTS")
    for k, v in constants.items():
        out.append("  %s = %s" % (k, tla_const(v)))
    for k, v in (subst or {}).items():
        out.append("  %s <- %s" % (k, v))
    if view:
        out.append("VIEW " + view)
    for i in invariants:
        out.append("INVARIANT " + i)
    for p in properties:
        out.append("PROPERTY " + p)
    for c in action_constraints:
        out.append("ACTION_CONSTRAINT " + c)
    for c in constraints:
        out.append("CONSTRAINT " + c)
    if postcondition:
        out.append("POSTCONDITION " + postcondition)
    out.append("CHECK_DEADLOCK FALSE")
    return "\n".join(out) + "\n"


def tla_const(v):
    if isinstance(v, bool):
        return "TRUE" if v else "FALSE"
    if isinstance(v, int):
        return str(v)
    if isinstance(v, str):
        return '"%s"' % v
    if isinstance(v, (set, frozenset, list, tuple)):
        return "{" + ", ".join(tla_const(x) for x in sorted(v, key=str)) + "}"
    raise ValueError(v)


def run_tlc(module, cfg, timeout=600, workers=1, env=None, extra=(), heap="4g", keep=None, light=False):
    """Run TLC on a scratch copy of spec/. Returns (exit_code, output). Never raises on a spec violation."""
    sc = Scratch()
    try:
        for f in os.listdir(SPEC):
            if f.endswith(".tla"):
                shutil.copyfile(os.path.join(SPEC, f), sc.path(f))
        open(sc.path("run.cfg"), "w").write(cfg)
        gc = ["-XX:+UseParallelGC", "-XX:ParallelGCThreads=2", "-XX:CICompilerCount=2", "-XX:TieredStopAtLevel=1"] if light else ["-XX:+UseParallelGC"]
        os.makedirs(sc.path("jtmp"), exist_ok=True)
        cmd = ["java"] + gc + ["-Djava.io.tmpdir=" + sc.path("jtmp"), "-Xmx" + heap, "-Xss64m", "-cp", CP, "tlc2.TLC", "-metadir", sc.path("md"),
               "-workers", str(workers), "-config", "run.cfg"] + list(extra) + [module]
        e = dict(os.environ)
        e.update(env or {})
        try:
            r = subprocess.run(cmd, cwd=sc.d, env=e, capture_output=True, text=True, timeout=timeout)
        except subprocess.TimeoutExpired:
            subprocess.run(["pkill", "-f", sc.d], capture_output=True)
            raise Inconclusive("TLC timed out after %ds on %s" % (timeout, module))
        out = "\n".join(l for l in r.stdout.splitlines()
                        if l and not l.startswith(("Parsing file", "Semantic processing", "Linting of module")))
        if keep:
            open(keep, "w").write(out)
        return r.returncode, out + ("\n" + r.stderr if r.stderr.strip() else "")
    finally:
        sc.close()


def tlc_stats(out):
    m = re.search(r"(\d+) states generated, (\d+) distinct states found", out)
    if not m:
        return None
    return {"generated": int(m.group(1)), "distinct": int(m.group(2))}


def tlc_ok(code, out):
    return code == 0 and "Model checking completed. No error has been found." in out


def unescape_tla(s):
    return s.replace('\\"', '"').replace("\\\\", "\\")


def printed(out, tag):
    """Values printed by PrintT(<<tag, ToJson(x)>>) or PrintT(<<tag, n>>)."""
    res = []
    pre = '<<"%s", ' % tag
    for line in out.splitlines():
        if line.startswith(pre) and line.endswith(">>"):
            body = line[len(pre):-2]
            if body.startswith('"'):
                res.append(json.loads(unescape_tla(body[1:-1])))
            else:
                res.append(json.loads(body))
    return res


def printed_raw(out, tag):
    res = []
    pre = '<<"%s", "' % tag
    for line in out.splitlines():
        if line.startswith(pre) and line.endswith('">>'):
            res.append(unescape_tla(line[len(pre):-3]))
    return res


def shard(items, n):
    n = max(1, min(n, len(items)))
    k, r = divmod(len(items), n)
    res, i = [], 0
    for j in range(n):
        sz = k + (1 if j < r else 0)
        res.append(items[i:i + sz])
        i += sz
    return [s for s in res if s]


def run_tlapm(module, timeout=600):
    """Checks the proofs of a module with the TLA+ proof system in a scratch copy; returns a summary for the evidence.
    A proof that does not go through is a defect of the specification, not of the code: inconclusive."""
    d = tempfile.mkdtemp(prefix="verif-tlapm-")
    try:
        shutil.copyfile(os.path.join(SPEC, module), os.path.join(d, module))
        try:
            r = subprocess.run(["tlapm", "--threads", str(min(NCPU, 8)), module], cwd=d, capture_output=True, text=True, timeout=timeout)
        except (subprocess.TimeoutExpired, FileNotFoundError) as e:
            raise Inconclusive("tlapm did not finish on %s: %s" % (module, e))
        out = r.stdout + r.stderr
        m = re.search(r"All (\d+) obligations? proved", out)
        if r.returncode != 0 or not m:
            raise Inconclusive("tlapm could not prove %s:\n%s" % (module, out[-1500:]))
        log("tlapm %s: all %s obligations proved" % (module, m.group(1)))
        return {"module": module, "obligations_proved": int(m.group(1)), "prover": "tlapm (TLAPS)", "theorem": "Spec => []Inv"}
    finally:
        shutil.rmtree(d, ignore_errors=True)


def run_harness(args, timeout=900, env=None):
    e = dict(os.environ)
    e.update(env or {})
    try:
        r = subprocess.run([HARNESS] + args, capture_output=True, text=True, timeout=timeout, env=e)
    except subprocess.TimeoutExpired:
        raise Inconclusive("harness timed out: " + " ".join(args[:2]))
    if r.returncode != 0:
        raise Inconclusive("harness failed (%d): %s\n%s" % (r.returncode, " ".join(args[:3]), (r.stdout + r.stderr)[-2000:]))
    return r.stdout


def known_findings():
    p = os.path.join(VERIF, "known_findings.json")
    if not os.path.exists(p):
        return {"open": [], "fixed": []}
    return json.load(open(p))


def open_deviations(prop):
    return {f["deviation"]: f for f in known_findings()["open"] if f["property"] == prop}


def write_evidence(prop, tier, seed, level, coverage, assumptions, wall, violations, extra=None):
    ev = {"property_id": prop, "tier": tier, "seed": seed, "level": level, "coverage": coverage,
          "assumptions": assumptions, "wall_s": round(wall, 2), "violations": violations}
    if extra:
        ev.update(extra)
    os.makedirs(os.path.join(VERIF, "evidence"), exist_ok=True)
    with open(os.path.join(VERIF, "evidence", prop + ".json"), "w") as f:
        json.dump(ev, f, indent=1, sort_keys=False)
        f.write("\n")


def clear_replays(prop):
    d = os.path.join(VERIF, "replays")
    if os.path.isdir(d):
        for f in os.listdir(d):
            if f.startswith(prop + "_"):
                os.remove(os.path.join(d, f))


def write_replay(prop, name, obj):
    d = os.path.join(VERIF, "replays")
    os.makedirs(d, exist_ok=True)
    p = os.path.join(d, "%s_%s.json" % (prop, name))
    with open(p, "w") as f:
        json.dump(obj, f, indent=1)
        f.write("\n")
    return p


def pmap(fn, items, workers=None):
    with ThreadPoolExecutor(max_workers=workers or NCPU) as ex:
        return list(ex.map(fn, items))
